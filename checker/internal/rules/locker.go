package rules

import (
	"fmt"
	"go/types"
	"strings"

	"dirkcheck/internal/an"
	"dirkcheck/internal/prog"

	"golang.org/x/tools/go/ssa"
)

// LockerInternals: C15.O2 (and the mutual-exclusion part C04.O5 locker.same-mutex).
func (c *Ctx) LockerInternals(prop string) {
	r := c.Ruler(prop + ".anchors")
	if !r.OK() {
		return
	}
	rule := "C15.O2 locker.internals"
	T := r.LockerImpl
	pre, post := c.Method(rule, T, "PreLock"), c.Method(rule, T, "PostLock")
	lock, unlock := c.Method(rule, T, "Lock"), c.Method(rule, T, "Unlock")
	if pre == nil || post == nil || lock == nil || unlock == nil {
		return
	}
	// PreLock / PostLock: exactly one mutex operation on one and the same field, nothing else that can block
	single := func(fn *ssa.Function, wantOp string) (string, bool) {
		var ops []lockOp
		other := 0
		for _, ci := range Calls(fn, func(ssa.CallInstruction) bool { return true }) {
			if op, ok := mutexOp(ci); ok {
				ops = append(ops, op)
				continue
			}
			if _, isB := ci.Common().Value.(*ssa.Builtin); isB {
				continue
			}
			f := ci.Common().StaticCallee()
			if f != nil && !prog.InModule(f) && strings.Contains(f.String(), "zerolog") {
				continue
			}
			other++
		}
		if len(ops) != 1 || ops[0].Op != wantOp || ops[0].Deferred || other != 0 {
			c.R.Fail(rule, Fn(fn), c.P.FuncPos(fn), fmt.Sprintf("expected exactly one %s of the gate mutex and nothing else; found %d mutex operations and %d other calls", wantOp, len(ops), other), wantOp+" of the gate mutex only", nil)
			return "", false
		}
		return ops[0].Key(), true
	}
	k1, ok1 := single(pre, "Lock")
	k2, ok2 := single(post, "Unlock")
	if ok1 && ok2 {
		if k1 != k2 {
			c.R.Fail(rule, "gate", c.P.FuncPos(post), "PreLock locks "+k1+" but PostLock unlocks "+k2, "one gate mutex", nil)
		} else {
			c.R.OK(rule, "gate", c.P.FuncPos(pre), "PreLock = Lock("+k1+"), PostLock = Unlock("+k1+"), nothing else")
		}
	}
	// Lock(key)
	{
		fn := lock
		keyP := fn.Params[len(fn.Params)-1]
		var fieldKeys = map[string]bool{}
		var finalLocks []ssa.CallInstruction
		nOther := 0
		for _, ci := range Calls(fn, func(ssa.CallInstruction) bool { return true }) {
			if op, ok := mutexOp(ci); ok {
				fieldKeys[op.Key()] = true
				if op.Key() == k1 {
					c.R.Fail(rule, Fn(fn)+":gate", c.Pos(ci), "Lock(key) touches the gate mutex itself (the caller already holds it)", "the gate is only used by PreLock/PostLock", nil)
				}
				continue
			}
			f := ci.Common().StaticCallee()
			if f != nil && (f.String() == "(*sync.Mutex).Lock") {
				finalLocks = append(finalLocks, ci)
				continue
			}
			if _, ok := isSyncMapOp(ci); ok {
				continue
			}
			if _, isB := ci.Common().Value.(*ssa.Builtin); isB {
				continue
			}
			if f != nil && !prog.InModule(f) && (strings.Contains(f.String(), "zerolog") || strings.Contains(f.String(), "prometheus")) {
				continue
			}
			if ci.Common().IsInvoke() && strings.Contains(an.TypeStr(ci.Common().Value.Type()), "metrics.") {
				continue
			}
			nOther++
			c.R.Fail(rule, Fn(fn)+":foreign-call", c.Pos(ci), "Lock(key) calls "+CalleeName(ci)+" (unknown blocking behaviour inside the gate)", "only sync.Map operations, the creation mutex and the key mutex", nil)
		}
		for k := range fieldKeys {
			h := Held(fn, k)
			if len(h.ReturnsHeld) > 0 {
				c.R.Fail(rule, Fn(fn)+":"+k, c.Pos(h.ReturnsHeld[0]), "Lock(key) can return with "+k+" still held: the next key creation blocks forever", "creation mutex released on every path", nil)
			} else if len(h.DoubleLock) > 0 {
				c.R.Fail(rule, Fn(fn)+":"+k, c.Pos(h.DoubleLock[0]), k+" can be locked twice on one path", "Lock/Unlock strictly paired", nil)
			} else if len(h.UnlockUnheld) > 0 {
				c.R.Fail(rule, Fn(fn)+":"+k, c.Pos(h.UnlockUnheld[0]), k+" can be unlocked while not held", "Lock/Unlock strictly paired", nil)
			} else {
				c.R.OK(rule, Fn(fn)+":"+k, c.P.FuncPos(fn), k+" is released on every path before Lock(key) returns")
			}
			// the blocking key-mutex acquisition happens with the creation mutex released
			for _, fl := range finalLocks {
				if h.Before[fl.(ssa.Instruction)]&2 != 0 {
					c.R.Fail(rule, Fn(fn)+":"+k+":nested", c.Pos(fl), "the key mutex is awaited while "+k+" is held", "creation mutex released before waiting for the key mutex", nil)
				}
			}
		}
		// final acquisition: on every returning path the last blocking step is Lock on the mutex stored for this key
		rule5 := "C04.O5 locker.same-mutex"
		if len(finalLocks) != 1 {
			c.R.Fail(rule5, Fn(fn), c.P.FuncPos(fn), fmt.Sprintf("expected exactly one key-mutex acquisition, found %d", len(finalLocks)), "one Lock() of the mutex stored for the key", nil)
		} else {
			fl := finalLocks[0]
			// every return passes the acquisition
			if x, path := an.Cut(an.CutQuery{From: an.Entry(fn), Target: func(i ssa.Instruction) bool { _, ok := i.(*ssa.Return); return ok },
				AcceptInstr: func(i ssa.Instruction) bool { return i == fl.(ssa.Instruction) }}); x != nil {
				c.R.Fail(rule5, Fn(fn), c.Pos(x), "Lock(key) can return without having acquired the key's mutex", "every path acquires the key mutex", an.PathString(c.Pos, path))
			}
			// the mutex value: typeassert of phi of {Load(key) value, freshly stored value}
			okSrc, why := c.keyMutexSources(fn, fl.Common().Args[0], keyP)
			if !okSrc {
				c.R.Fail(rule5, Fn(fn), c.Pos(fl), "the mutex acquired is not the one stored in the map for this key: "+why, "mutex = map[key] (loaded, or created and stored only when absent)", nil)
			} else {
				c.R.OK(rule5, Fn(fn), c.Pos(fl), "the mutex acquired is map[key]; a new mutex is stored only below the not-present edge of a Load(key)")
			}
		}
	}
	// Unlock(key): no blocking operation
	{
		fn := unlock
		bad := false
		for _, ci := range Calls(fn, func(ssa.CallInstruction) bool { return true }) {
			f := ci.Common().StaticCallee()
			if f != nil && (f.String() == "(*sync.Mutex).Unlock") {
				continue
			}
			if _, ok := isSyncMapOp(ci); ok {
				continue
			}
			if _, isB := ci.Common().Value.(*ssa.Builtin); isB {
				continue
			}
			if op, ok := mutexOp(ci); ok {
				bad = true
				c.R.Fail(rule, Fn(fn)+":"+op.Key(), c.Pos(ci), "Unlock(key) takes "+op.Key()+": releasing a key can wait on another goroutine", "Unlock never blocks", nil)
				continue
			}
			if f != nil && !prog.InModule(f) && strings.Contains(f.String(), "zerolog") {
				continue
			}
			bad = true
			c.R.Fail(rule, Fn(fn)+":foreign-call", c.Pos(ci), "Unlock(key) calls "+CalleeName(ci), "only a map load and the mutex release", nil)
		}
		if !bad {
			c.R.OK(rule, Fn(fn), c.P.FuncPos(fn), "Unlock(key) performs a map load and a mutex release only")
		}
	}
}

// keyMutexSources checks that mutex value v (receiver of the final Lock) is typeassert(phi(Load(key)#0 ..., stored new mutex)).
func (c *Ctx) keyMutexSources(fn *ssa.Function, v ssa.Value, keyP *ssa.Parameter) (bool, string) {
	ta, ok := v.(*ssa.TypeAssert)
	if !ok {
		return false, "receiver is not a type assertion of a map value"
	}
	var leaves []ssa.Value
	seen := map[ssa.Value]bool{}
	var walk func(x ssa.Value)
	walk = func(x ssa.Value) {
		if seen[x] {
			return
		}
		seen[x] = true
		if phi, ok := x.(*ssa.Phi); ok {
			for _, e := range phi.Edges {
				walk(e)
			}
			return
		}
		leaves = append(leaves, x)
	}
	walk(ta.X)
	isKeyArg := func(a ssa.Value) bool {
		mi, ok := a.(*ssa.MakeInterface)
		return ok && mi.X == ssa.Value(keyP)
	}
	for _, lf := range leaves {
		switch x := lf.(type) {
		case *ssa.Extract:
			call, ok := x.Tuple.(*ssa.Call)
			if !ok || x.Index != 0 {
				return false, "unexpected source " + an.Term(lf)
			}
			op, ok := isSyncMapOp(call)
			if !ok || (op != "Load" && op != "LoadOrStore") || !isKeyArg(call.Call.Args[1]) {
				return false, "loaded with a different key: " + an.Term(lf)
			}
			// a Load result used as the mutex must be under its ok edge... for LoadOrStore always valid
			if op == "Load" {
				var okv ssa.Value
				for _, ref := range *call.Referrers() {
					if ex, ok := ref.(*ssa.Extract); ok && ex.Index == 1 {
						okv = ex
					}
				}
				_ = okv
			}
		case *ssa.MakeInterface:
			alloc, ok := x.X.(*ssa.Alloc)
			if !ok || an.TypeStr(alloc.Type()) != "*sync.Mutex" {
				return false, "a value other than a new *sync.Mutex is used"
			}
			// must be stored in the map under key, below a not-present edge of Load(key)
			stored := false
			for _, ref := range *x.Referrers() {
				call, ok := ref.(*ssa.Call)
				if !ok {
					continue
				}
				if op, ok := isSyncMapOp(call); ok && op == "Store" && isKeyArg(call.Call.Args[1]) && call.Call.Args[2] == ssa.Value(x) {
					// guard: below [!ok] of a Load(key)
					target := ssa.Instruction(call)
					if y, _ := an.Cut(an.CutQuery{From: an.Entry(fn), Target: func(i ssa.Instruction) bool { return i == target },
						AcceptEdge: func(b *ssa.BasicBlock, i int, a *an.Atom) bool {
							if a == nil || a.Op != "false" {
								return false
							}
							ex, ok := a.LV.(*ssa.Extract)
							if !ok || ex.Index != 1 {
								return false
							}
							lc, ok := ex.Tuple.(*ssa.Call)
							if !ok {
								return false
							}
							op, ok := isSyncMapOp(lc)
							return ok && op == "Load" && isKeyArg(lc.Call.Args[1])
						}}); y != nil {
						return false, "a new mutex can replace an existing one (two holders of one key)"
					}
					stored = true
				}
			}
			if !stored {
				return false, "the new mutex is not stored in the map"
			}
		default:
			return false, "unexpected source " + an.Term(lf)
		}
	}
	// all Stores into the map store *sync.Mutex values under the key parameter
	for _, ci := range Calls(fn, func(ci ssa.CallInstruction) bool {
		op, ok := isSyncMapOp(ci)
		return ok && (op == "Store" || op == "Delete" || op == "Clear" || op == "Swap" || op == "CompareAndSwap" || op == "CompareAndDelete" || op == "LoadAndDelete")
	}) {
		op, _ := isSyncMapOp(ci)
		if op != "Store" {
			return false, "the key-mutex map is modified by " + op
		}
		mi, ok := ci.Common().Args[2].(*ssa.MakeInterface)
		if !ok || an.TypeStr(mi.X.Type()) != "*sync.Mutex" {
			return false, "a non-mutex value is stored in the map"
		}
	}
	// nobody else writes the map field
	T := namedOf(fn.Signature.Recv().Type())
	for _, other := range c.P.ModuleFuncs() {
		if other == fn || prog.PkgPathOf(other) != prog.PkgPathOf(fn) {
			continue
		}
		for _, ci := range Calls(other, func(ci ssa.CallInstruction) bool {
			op, ok := isSyncMapOp(ci)
			return ok && op != "Load" && op != "Range"
		}) {
			_ = T
			return false, "the key-mutex map is also modified in " + Fn(other) + " at " + c.Pos(ci)
		}
	}
	return true, ""
}

// NoNestedAcquisition: C15.O3 - nothing that runs while key locks are held (everything reachable from the dispatch)
// can reach the locker or RunRules again.
func (c *Ctx) NoNestedAcquisition(prop string) {
	r := c.Ruler(prop + ".anchors")
	if !r.OK() {
		return
	}
	rule := "C15.O3 no-nested-acquisition"
	g := c.ModGraph()
	forbidden := map[*ssa.Function]bool{r.RunRules: true}
	for _, m := range []string{"PreLock", "PostLock", "Lock", "Unlock"} {
		if f := c.P.Method(r.LockerImpl, m); f != nil {
			forbidden[f] = true
		}
	}
	var roots []*ssa.Function
	for _, d := range r.Dispatch {
		if f := d.Common().StaticCallee(); f != nil {
			roots = append(roots, f)
		} else {
			roots = append(roots, c.P.Callees(d)...)
		}
	}
	pred := g.Reach(roots, nil)
	bad := false
	for f := range forbidden {
		if _, ok := pred[f]; ok {
			bad = true
			c.R.Fail(rule, Fn(f), c.P.FuncPos(f), "rule evaluation (which runs with key locks held) can reach "+Fn(f)+": a request can wait for a lock it or a peer already holds", "nothing below the dispatch re-enters RunRules or the locker", PathTo(pred, f))
		}
	}
	c.R.Count("functions_reachable_from_dispatch", len(pred))
	c.R.Floor(rule, "module functions reachable from the dispatch", len(pred), 10)
	// RunRules itself holds no other module mutex across the locker calls
	for _, ci := range Calls(r.RunRules, func(ci ssa.CallInstruction) bool { _, ok := mutexOp(ci); return ok }) {
		bad = true
		c.R.Fail(rule, Fn(r.RunRules)+":mutex", c.Pos(ci), "RunRules takes another mutex around the locker calls", "no other lock is held across PreLock/Lock", nil)
	}
	// lock-order: module mutexes acquired below the dispatch must be leaves: while holding them no call may reach the locker (covered above,
	// since reaching the locker at all is forbidden).
	if !bad {
		c.R.OK(rule, Fn(r.RunRules), c.P.FuncPos(r.RunRules), fmt.Sprintf("%d module functions are reachable from the dispatch; none is RunRules or a locker method", len(pred)))
	}
	var _ = types.Identical
}
