package rules

import (
	"fmt"
	"go/token"
	"go/types"
	"sort"
	"strings"

	"dirkcheck/internal/an"
	"dirkcheck/internal/prog"

	"golang.org/x/tools/go/ssa"
)

// LockerInternals: C15.O2 (and the mutual-exclusion part C04.O5 locker.same-mutex).
func (c *Ctx) LockerInternals(prop string) {
	r := c.Ruler(prop + ".anchors")
	if !r.OK() {
		return
	}
	rule := "C15.O2 locker.internals"
	T := r.LockerImpl
	pre, post := c.Method(rule, T, "PreLock"), c.Method(rule, T, "PostLock")
	lock, unlock := c.Method(rule, T, "Lock"), c.Method(rule, T, "Unlock")
	if pre == nil || post == nil || lock == nil || unlock == nil {
		return
	}
	// PreLock / PostLock: exactly one mutex operation on one and the same field, nothing else that can block
	single := func(fn *ssa.Function, wantOp string) (string, bool) {
		var ops []lockOp
		other := 0
		for _, ci := range Calls(fn, func(ssa.CallInstruction) bool { return true }) {
			if op, ok := mutexOp(ci); ok {
				ops = append(ops, op)
				continue
			}
			if _, isB := ci.Common().Value.(*ssa.Builtin); isB {
				continue
			}
			f := ci.Common().StaticCallee()
			if f != nil && !prog.InModule(f) && strings.Contains(f.String(), "zerolog") {
				continue
			}
			other++
		}
		if len(ops) != 1 || ops[0].Op != wantOp || ops[0].Deferred || other != 0 {
			c.R.Fail(rule, Fn(fn), c.P.FuncPos(fn), fmt.Sprintf("expected exactly one %s of the gate mutex and nothing else; found %d mutex operations and %d other calls", wantOp, len(ops), other), wantOp+" of the gate mutex only", nil)
			return "", false
		}
		return ops[0].Key(), true
	}
	k1, ok1 := single(pre, "Lock")
	k2, ok2 := single(post, "Unlock")
	if ok1 && ok2 {
		if k1 != k2 {
			c.R.Fail(rule, "gate", c.P.FuncPos(post), "PreLock locks "+k1+" but PostLock unlocks "+k2, "one gate mutex", nil)
		} else {
			c.R.OK(rule, "gate", c.P.FuncPos(pre), "PreLock = Lock("+k1+"), PostLock = Unlock("+k1+"), nothing else")
		}
	}
	// the unit analysed for Lock/Unlock: the method and the same-receiver helper methods it calls (statically)
	unitOf := func(root *ssa.Function) map[*ssa.Function]bool {
		unit := map[*ssa.Function]bool{root: true}
		work := []*ssa.Function{root}
		for len(work) > 0 && len(unit) < 12 {
			f := work[len(work)-1]
			work = work[:len(work)-1]
			for _, ci := range Calls(f, func(ci ssa.CallInstruction) bool {
				g := ci.Common().StaticCallee()
				// helpers of the locker's own package: same-receiver methods, methods of package-local helper types, functions
				return g != nil && g.Blocks != nil && !ci.Common().IsInvoke() && prog.PkgPathOf(g) == prog.PkgPathOf(root)
			}) {
				g := ci.Common().StaticCallee()
				if g == pre || g == post || unit[g] {
					continue
				}
				unit[g] = true
				work = append(work, g)
			}
		}
		return unit
	}
	benign := func(ci ssa.CallInstruction) bool {
		if _, ok := isSyncMapOp(ci); ok {
			return true
		}
		if _, isB := ci.Common().Value.(*ssa.Builtin); isB {
			return true
		}
		f := ci.Common().StaticCallee()
		if f != nil && !prog.InModule(f) && (strings.Contains(f.String(), "zerolog") || strings.Contains(f.String(), "prometheus")) {
			return true
		}
		if ci.Common().IsInvoke() && strings.Contains(an.TypeStr(ci.Common().Value.Type()), "metrics.") {
			return true
		}
		return false
	}
	// Lock(key)
	{
		unit := unitOf(lock)
		var fieldKeys = map[string]bool{}
		type flock struct {
			ci ssa.CallInstruction
			fn *ssa.Function
		}
		var finalLocks []flock
		for fn := range unit {
			for _, ci := range Calls(fn, func(ssa.CallInstruction) bool { return true }) {
				if op, ok := mutexOp(ci); ok {
					fieldKeys[op.Key()] = true
					if op.Key() == k1 {
						c.R.Fail(rule, Fn(fn)+":gate", c.Pos(ci), "Lock(key) touches the gate mutex itself (the caller already holds it)", "the gate is only used by PreLock/PostLock", nil)
					}
					continue
				}
				f := ci.Common().StaticCallee()
				if f != nil && (f.String() == "(*sync.Mutex).Lock") {
					finalLocks = append(finalLocks, flock{ci, fn})
					continue
				}
				if f != nil && f.String() == "(*sync.Mutex).Unlock" {
					c.R.Fail(rule, Fn(fn)+":foreign-call", c.Pos(ci), "Lock(key) releases a key mutex", "only sync.Map operations, the creation mutex and the key mutex", nil)
					continue
				}
				if benign(ci) || (f != nil && unit[f]) {
					continue
				}
				c.R.Fail(rule, Fn(fn)+":foreign-call", c.Pos(ci), "Lock(key) calls "+CalleeName(ci)+" (unknown blocking behaviour inside the gate)", "only sync.Map operations, the creation mutex and the key mutex", nil)
			}
		}
		// what a unit member (transitively) does: touches mutex field k / awaits a key mutex
		var touches func(f *ssa.Function, k string, seen map[*ssa.Function]bool) bool
		touches = func(f *ssa.Function, k string, seen map[*ssa.Function]bool) bool {
			if seen[f] {
				return false
			}
			seen[f] = true
			for _, ci := range Calls(f, func(ssa.CallInstruction) bool { return true }) {
				if op, ok := mutexOp(ci); ok && op.Key() == k {
					return true
				}
				g := ci.Common().StaticCallee()
				if g != nil && g.String() == "(*sync.Mutex).Lock" {
					return true
				}
				if g != nil && unit[g] && touches(g, k, seen) {
					return true
				}
			}
			return false
		}
		for k := range fieldKeys {
			for fn := range unit {
				h := Held(fn, k)
				if len(h.Ops) == 0 {
					continue
				}
				if len(h.ReturnsHeld) > 0 {
					c.R.Fail(rule, Fn(fn)+":"+k, c.Pos(h.ReturnsHeld[0]), "Lock(key) can return with "+k+" still held: the next key creation blocks forever", "creation mutex released on every path", nil)
				} else if len(h.DoubleLock) > 0 {
					c.R.Fail(rule, Fn(fn)+":"+k, c.Pos(h.DoubleLock[0]), k+" can be locked twice on one path", "Lock/Unlock strictly paired", nil)
				} else if len(h.UnlockUnheld) > 0 {
					c.R.Fail(rule, Fn(fn)+":"+k, c.Pos(h.UnlockUnheld[0]), k+" can be unlocked while not held", "Lock/Unlock strictly paired", nil)
				} else {
					c.R.OK(rule, Fn(fn)+":"+k, c.P.FuncPos(fn), k+" is released on every path before "+Fn(fn)+" returns")
				}
				// while the creation mutex is held: no wait for a key mutex and no helper that takes the creation mutex again or waits
				for _, fl := range finalLocks {
					if fl.fn == fn && h.Before[fl.ci.(ssa.Instruction)]&2 != 0 {
						c.R.Fail(rule, Fn(fn)+":"+k+":nested", c.Pos(fl.ci), "the key mutex is awaited while "+k+" is held", "creation mutex released before waiting for the key mutex", nil)
					}
				}
				for _, ci := range Calls(fn, func(ci ssa.CallInstruction) bool { g := ci.Common().StaticCallee(); return g != nil && unit[g] }) {
					if h.Before[ci.(ssa.Instruction)]&2 != 0 && touches(ci.Common().StaticCallee(), k, map[*ssa.Function]bool{}) {
						c.R.Fail(rule, Fn(fn)+":"+k+":nested", c.Pos(ci), "while "+k+" is held a helper is called that takes it again or waits for a key mutex", "helpers called under the creation mutex only read the map", nil)
					}
				}
			}
		}
		// final acquisition: on every returning path the last blocking step is Lock on the mutex stored for this key
		rule5 := "C04.O5 locker.same-mutex"
		fn := lock
		keyP := fn.Params[len(fn.Params)-1]
		inLock := true
		for _, fl := range finalLocks {
			if fl.fn != lock {
				inLock = false
			}
		}
		if len(finalLocks) == 0 || !inLock {
			c.R.Fail(rule5, Fn(fn), c.P.FuncPos(fn), fmt.Sprintf("expected the key-mutex acquisition(s) in Lock(key) itself, found %d in its unit", len(finalLocks)), "Lock() of the mutex stored for the key", nil)
		} else {
			fl := finalLocks[0].ci
			isFinal := func(i ssa.Instruction) bool {
				for _, f2 := range finalLocks {
					if f2.ci.(ssa.Instruction) == i {
						return true
					}
				}
				return false
			}
			// every return passes an acquisition, and no path performs two
			if x, path := an.Cut(an.CutQuery{From: an.Entry(fn), Target: func(i ssa.Instruction) bool { _, ok := i.(*ssa.Return); return ok },
				AcceptInstr: isFinal}); x != nil {
				c.R.Fail(rule5, Fn(fn), c.Pos(x), "Lock(key) can return without having acquired the key's mutex", "every path acquires the key mutex", an.PathString(c.Pos, path))
			}
			for _, f2 := range finalLocks {
				if x, _ := an.Cut(an.CutQuery{From: an.After(f2.ci), Target: isFinal}); x != nil {
					c.R.Fail(rule5, Fn(fn), c.Pos(x), "Lock(key) can acquire a key mutex twice on one path (self-deadlock)", "one acquisition per call", nil)
				}
			}
			ms := &mutexSrc{c: c, unit: unit, creation: fieldKeys}
			okAllSrc := true
			for _, f2 := range finalLocks {
				if !ms.src(fn, f2.ci.Common().Args[0], keyP, f2.ci.(ssa.Instruction), 0) {
					okAllSrc = false
					fl = f2.ci
				}
			}
			if !okAllSrc {
				c.R.Fail(rule5, Fn(fn), c.Pos(fl), "the mutex acquired is not the one stored in the map for this key: "+ms.why, "mutex = map[key] (loaded, or created and stored only when a re-check under the creation mutex finds it absent)", nil)
			} else if w := ms.mapWriters(lock); w != "" {
				c.R.Fail(rule5, Fn(fn), c.Pos(fl), "the mutex acquired is not the one stored in the map for this key: "+w, "only Lock(key) creates map entries, never replaces or deletes them", nil)
			} else {
				c.R.OK(rule5, Fn(fn), c.Pos(fl), "the mutex acquired is map[key]; a new mutex is stored only below the not-present edge of a Load(key) made while the creation mutex is held")
			}
		}
	}
	// Unlock(key): no blocking operation
	{
		unit := unitOf(unlock)
		bad := false
		for fn := range unit {
			for _, ci := range Calls(fn, func(ssa.CallInstruction) bool { return true }) {
				f := ci.Common().StaticCallee()
				if f != nil && (f.String() == "(*sync.Mutex).Unlock") && fn == unlock {
					continue
				}
				if op, ok := mutexOp(ci); ok {
					bad = true
					c.R.Fail(rule, Fn(fn)+":"+op.Key(), c.Pos(ci), "Unlock(key) takes "+op.Key()+": releasing a key can wait on another goroutine", "Unlock never blocks", nil)
					continue
				}
				if op, ok := isSyncMapOp(ci); ok {
					if op != "Load" {
						bad = true
						c.R.Fail(rule, Fn(fn)+":foreign-call", c.Pos(ci), "Unlock(key) modifies the key-mutex map ("+op+")", "only a map load and the mutex release", nil)
					}
					continue
				}
				if benign(ci) || (f != nil && unit[f]) {
					continue
				}
				bad = true
				c.R.Fail(rule, Fn(fn)+":foreign-call", c.Pos(ci), "Unlock(key) calls "+CalleeName(ci), "only a map load and the mutex release", nil)
			}
		}
		if !bad {
			c.R.OK(rule, Fn(unlock), c.P.FuncPos(unlock), "Unlock(key) performs a map load and a mutex release only")
		}
	}
}

// mutexSrc decides where the mutex acquired by Lock(key) comes from, following same-receiver helpers.
type mutexSrc struct {
	c        *Ctx
	unit     map[*ssa.Function]bool
	creation map[string]bool // mutex fields used in the unit
	why      string
}

func isKeyVal(a ssa.Value, kp ssa.Value) bool {
	if a == kp {
		return true
	}
	mi, ok := a.(*ssa.MakeInterface)
	return ok && mi.X == kp
}

// helperKey maps the key value kp (in the caller) to the parameter of callee that receives it.
func helperKey(call *ssa.Call, kp ssa.Value) ssa.Value {
	callee := call.Call.StaticCallee()
	for i, a := range call.Call.Args {
		if isKeyVal(a, kp) && i < len(callee.Params) {
			return callee.Params[i]
		}
	}
	return nil
}

// guardedByOk: `at` is reachable only through the edge on which result #1 of call is true.
func guardedByOk(call *ssa.Call, at ssa.Instruction) bool {
	var okv ssa.Value
	for _, ref := range *call.Referrers() {
		if ex, ok := ref.(*ssa.Extract); ok && ex.Index == 1 {
			okv = ex
		}
	}
	if okv == nil || at == nil {
		return false
	}
	x, _ := an.Cut(an.CutQuery{From: an.Entry(at.Parent()), Target: func(i ssa.Instruction) bool { return i == at },
		AcceptEdge: func(b *ssa.BasicBlock, i int, a *an.Atom) bool { return a != nil && a.Op == "true" && a.LV == okv }})
	return x == nil
}

func (m *mutexSrc) src(fn *ssa.Function, v ssa.Value, kp ssa.Value, at ssa.Instruction, depth int) bool {
	if depth > 6 {
		m.why = "source too deep"
		return false
	}
	switch x := v.(type) {
	case *ssa.TypeAssert:
		return m.src(fn, x.X, kp, at, depth)
	case *ssa.ChangeType:
		return m.src(fn, x.X, kp, at, depth)
	case *ssa.MakeInterface:
		return m.src(fn, x.X, kp, at, depth)
	case *ssa.Phi:
		for i, e := range x.Edges {
			pred := x.Block().Preds[i]
			// the value may flow in over the very edge on which its `ok` companion is true: (v, ok) := get(key); if !ok { v = new }
			if ex, isEx := e.(*ssa.Extract); isEx && ex.Index == 0 {
				if c2, isCall := ex.Tuple.(*ssa.Call); isCall {
					if a := edgeAtomTo(pred, x.Block()); a != nil && a.Op == "true" {
						if e1, ok := a.LV.(*ssa.Extract); ok && e1.Tuple == ssa.Value(c2) && e1.Index == 1 {
							if _, isMap := isSyncMapOp(c2); !isMap {
								if !m.helperOk(c2, 0, kp, depth+1, true) {
									return false
								}
								continue
							}
						}
					}
				}
			}
			if !m.src(fn, e, kp, pred.Instrs[len(pred.Instrs)-1], depth+1) {
				return false
			}
		}
		return true
	case *ssa.Extract:
		if ta, isTA := x.Tuple.(*ssa.TypeAssert); isTA && x.Index == 0 {
			return m.src(fn, ta.X, kp, at, depth) // v, ok := value.(*sync.Mutex)
		}
		call, ok := x.Tuple.(*ssa.Call)
		if !ok {
			m.why = "unexpected source " + an.Term(v)
			return false
		}
		if op, ok := isSyncMapOp(call); ok {
			if x.Index != 0 || (op != "Load" && op != "LoadOrStore") || !isKeyVal(call.Call.Args[1], kp) {
				m.why = "loaded with a different key: " + an.Term(v)
				return false
			}
			if op == "LoadOrStore" {
				mi, ok := call.Call.Args[2].(*ssa.MakeInterface)
				if !ok || an.TypeStr(mi.X.Type()) != "*sync.Mutex" {
					m.why = "LoadOrStore of a non-mutex"
					return false
				}
			}
			return true
		}
		return m.helper(call, x.Index, kp, at, depth)
	case *ssa.Call:
		return m.helper(x, 0, kp, at, depth)
	case *ssa.Alloc:
		if an.TypeStr(x.Type()) != "*sync.Mutex" {
			m.why = "a value other than a new *sync.Mutex is used"
			return false
		}
		return m.freshStored(fn, x, kp)
	case *ssa.Const:
		m.why = "a nil mutex can be acquired"
		return false
	}
	m.why = "unexpected source " + an.Term(v)
	return false
}

func (m *mutexSrc) helper(call *ssa.Call, idx int, kp ssa.Value, at ssa.Instruction, depth int) bool {
	h := call.Call.StaticCallee()
	if h == nil {
		m.why = "unexpected source " + an.Term(call)
		return false
	}
	return m.helperOk(call, idx, kp, depth, h.Signature.Results().Len() == 2 && guardedByOk(call, at))
}

func (m *mutexSrc) helperOk(call *ssa.Call, idx int, kp ssa.Value, depth int, onlyOk bool) bool {
	h := call.Call.StaticCallee()
	if h == nil || !m.unit[h] {
		m.why = "unexpected source " + an.Term(call)
		return false
	}
	hk := helperKey(call, kp)
	if hk == nil {
		m.why = "helper " + Fn(h) + " is not given this key"
		return false
	}
	n := 0
	for _, ret := range an.Returns(h) {
		if idx >= len(ret.Results) {
			continue
		}
		if onlyOk {
			if k, ok := an.Result(ret, 1).(*ssa.Const); ok && an.Term(k) == "false" {
				continue // this return is excluded by the caller's [ok] test
			}
		}
		n++
		if !m.src(h, an.Result(ret, idx), hk, ret, depth+1) {
			return false
		}
	}
	if n == 0 {
		m.why = "helper " + Fn(h) + " has no usable return"
		return false
	}
	return true
}

// notPresentEdge: the atom states that the map holds no entry for kp, as observed by instruction `obs` (a Load of the key,
// or a call of a unit helper whose false result #1 is returned only below such a Load's not-present edge).
func (m *mutexSrc) notPresentEdge(a *an.Atom, kp ssa.Value, depth int) (obs ssa.Instruction, ok bool) {
	if a == nil || a.Op != "false" || depth > 3 {
		return nil, false
	}
	ex, isEx := a.LV.(*ssa.Extract)
	if !isEx || ex.Index != 1 {
		return nil, false
	}
	lc, isCall := ex.Tuple.(*ssa.Call)
	if !isCall {
		return nil, false
	}
	if op, isMap := isSyncMapOp(lc); isMap {
		if op == "Load" && isKeyVal(lc.Call.Args[1], kp) {
			return lc, true
		}
		return nil, false
	}
	h := lc.Call.StaticCallee()
	if h == nil || !m.unit[h] {
		return nil, false
	}
	hk := helperKey(lc, kp)
	if hk == nil {
		return nil, false
	}
	for _, ret := range an.Returns(h) {
		if len(ret.Results) < 2 {
			return nil, false
		}
		r1 := an.Result(ret, 1)
		if k, isK := r1.(*ssa.Const); isK {
			if an.Term(k) == "true" {
				continue
			}
			target := ssa.Instruction(ret)
			if x, _ := an.Cut(an.CutQuery{From: an.Entry(h), Target: func(i ssa.Instruction) bool { return i == target },
				AcceptEdge: func(b *ssa.BasicBlock, i int, e *an.Atom) bool { _, ok := m.notPresentEdge(e, hk, depth+1); return ok }}); x != nil {
				return nil, false
			}
			continue
		}
		// returned as is: the presence flag of a Load(key)
		if e2, isE := r1.(*ssa.Extract); isE && e2.Index == 1 {
			if c2, isC := e2.Tuple.(*ssa.Call); isC {
				if op, isMap := isSyncMapOp(c2); isMap && op == "Load" && isKeyVal(c2.Call.Args[1], hk) {
					continue
				}
			}
		}
		return nil, false
	}
	return lc, true
}

// freshStored: the new mutex is stored under the key, only below a not-present observation made while a creation mutex is
// held, and still held at the store (the re-check of the double-checked creation).
func (m *mutexSrc) freshStored(fn *ssa.Function, alloc *ssa.Alloc, kp ssa.Value) bool {
	var vals []ssa.Value
	vals = append(vals, alloc)
	for _, ref := range *alloc.Referrers() {
		if mi, ok := ref.(*ssa.MakeInterface); ok {
			vals = append(vals, mi)
		}
	}
	for _, v := range vals {
		if v.Referrers() == nil {
			continue
		}
		for _, ref := range *v.Referrers() {
			call, ok := ref.(*ssa.Call)
			if !ok {
				continue
			}
			op, ok := isSyncMapOp(call)
			if !ok {
				// a unit helper that stores its (key, value) parameters into the map on every path: put(key, mutex)
				if !m.storesParams(call, kp, v) {
					continue
				}
			} else if op != "Store" || !isKeyVal(call.Call.Args[1], kp) || call.Call.Args[2] != v {
				continue
			}
			for k := range m.creation {
				h := Held(fn, k)
				if h.Before[call]&2 == 0 || h.Before[call]&1 != 0 {
					continue
				}
				target := ssa.Instruction(call)
				if y, _ := an.Cut(an.CutQuery{From: an.Entry(fn), Target: func(i ssa.Instruction) bool { return i == target },
					AcceptEdge: func(b *ssa.BasicBlock, i int, a *an.Atom) bool {
						obs, ok := m.notPresentEdge(a, kp, 0)
						return ok && h.Before[obs]&2 != 0 && h.Before[obs]&1 == 0
					}}); y == nil {
					return true
				}
			}
			m.why = "a new mutex can replace an existing one (no re-check under the creation mutex: two holders of one key)"
			return false
		}
	}
	m.why = "the new mutex is not stored in the map"
	return false
}

// storesParams: call hands (kp, v) to a unit helper that, on every path to its return, performs map.Store(key parameter,
// value parameter).
func (m *mutexSrc) storesParams(call *ssa.Call, kp ssa.Value, v ssa.Value) bool {
	h := call.Call.StaticCallee()
	if h == nil || !m.unit[h] || call.Call.IsInvoke() {
		return false
	}
	var hk, hv ssa.Value
	for i, a := range call.Call.Args {
		if i >= len(h.Params) {
			continue
		}
		if isKeyVal(a, kp) {
			hk = h.Params[i]
		}
		if a == v {
			hv = h.Params[i]
		}
	}
	if hk == nil || hv == nil {
		return false
	}
	isStore := func(i ssa.Instruction) bool {
		c2, ok := i.(*ssa.Call)
		if !ok {
			return false
		}
		op, ok := isSyncMapOp(c2)
		if !ok || op != "Store" || !isKeyVal(c2.Call.Args[1], hk) {
			return false
		}
		val := c2.Call.Args[2]
		if mi, ok := val.(*ssa.MakeInterface); ok {
			val = mi.X
		}
		return val == hv
	}
	x, _ := an.Cut(an.CutQuery{From: an.Entry(h), Target: func(i ssa.Instruction) bool { _, ok := i.(*ssa.Return); return ok }, AcceptInstr: isStore})
	return x == nil
}

// mapWriters: every modification of the key-mutex map is a Store of a *sync.Mutex inside Lock(key)'s unit.
func (m *mutexSrc) mapWriters(lock *ssa.Function) string {
	for fn := range m.unit {
		for _, ci := range Calls(fn, func(ci ssa.CallInstruction) bool {
			op, ok := isSyncMapOp(ci)
			return ok && (op == "Store" || op == "Delete" || op == "Clear" || op == "Swap" || op == "CompareAndSwap" || op == "CompareAndDelete" || op == "LoadAndDelete")
		}) {
			op, _ := isSyncMapOp(ci)
			if op != "Store" {
				return "the key-mutex map is modified by " + op
			}
			mi, ok := ci.Common().Args[2].(*ssa.MakeInterface)
			if !ok || an.TypeStr(mi.X.Type()) != "*sync.Mutex" {
				return "a non-mutex value is stored in the map"
			}
		}
	}
	for _, other := range m.c.P.ModuleFuncs() {
		if m.unit[other] || prog.PkgPathOf(other) != prog.PkgPathOf(lock) {
			continue
		}
		for _, ci := range Calls(other, func(ci ssa.CallInstruction) bool {
			op, ok := isSyncMapOp(ci)
			return ok && op != "Load" && op != "Range"
		}) {
			return "the key-mutex map is also modified in " + Fn(other) + " at " + m.c.Pos(ci)
		}
	}
	return ""
}

// NoNestedAcquisition: C15.O3 - nothing that runs while key locks are held (everything reachable from the dispatch)
// can reach the locker or RunRules again.
func (c *Ctx) NoNestedAcquisition(prop string) {
	r := c.Ruler(prop + ".anchors")
	if !r.OK() {
		return
	}
	rule := "C15.O3 no-nested-acquisition"
	g := c.ModGraph()
	forbidden := map[*ssa.Function]bool{r.RunRules: true}
	for _, m := range []string{"PreLock", "PostLock", "Lock", "Unlock"} {
		if f := c.P.Method(r.LockerImpl, m); f != nil {
			forbidden[f] = true
		}
	}
	var roots []*ssa.Function
	for _, d := range r.Dispatch {
		if f := d.Common().StaticCallee(); f != nil {
			roots = append(roots, f)
		} else {
			roots = append(roots, c.P.Callees(d)...)
		}
	}
	pred := g.Reach(roots, nil)
	bad := false
	for f := range forbidden {
		if _, ok := pred[f]; ok {
			bad = true
			c.R.Fail(rule, Fn(f), c.P.FuncPos(f), "rule evaluation (which runs with key locks held) can reach "+Fn(f)+": a request can wait for a lock it or a peer already holds", "nothing below the dispatch re-enters RunRules or the locker", PathTo(pred, f))
		}
	}
	// nor does it block on a channel shared by the whole process (a package-level semaphore or queue): requests that
	// hold key locks would wait for capacity held by other requests that wait for their keys
	isGlobalChan := func(v ssa.Value) (*ssa.Global, bool) {
		if ct, ok := v.(*ssa.ChangeType); ok {
			v = ct.X
		}
		u, ok := v.(*ssa.UnOp)
		if !ok || u.Op != token.MUL {
			return nil, false
		}
		g, ok := u.X.(*ssa.Global)
		return g, ok
	}
	// goroutines and channel waits below the dispatch exist only inside the validated fork/join helper (C03.O6): anything
	// else that waits for another goroutine while key locks are held can wait forever (a cancelled feeder, a lost reply)
	sc := c.ScatterHelper(rule)
	inScatter := func(f *ssa.Function) bool {
		for g := f; g != nil; g = g.Parent() {
			if g == sc {
				return true
			}
		}
		// a collecting helper called only by the fork helper
		return sc != nil && c.onlyCalledFrom(f, map[*ssa.Function]bool{sc: true}, 1)
	}
	for f := range pred {
		if f.Blocks == nil || !prog.InModule(f) || inScatter(f) {
			continue
		}
		for _, fb := range f.Blocks {
			for _, ins := range fb.Instrs {
				what := ""
				switch x := ins.(type) {
				case *ssa.Go:
					what = "starts a goroutine"
				case *ssa.Send:
					what = "sends on a channel"
				case *ssa.Select:
					if x.Blocking {
						what = "waits in a select"
					}
				case *ssa.UnOp:
					if x.Op == token.ARROW {
						what = "waits for a channel"
					}
				}
				if what != "" {
					bad = true
					c.R.Fail(rule, Fn(f)+":goroutines", c.Pos(ins), "rule evaluation (which runs with key locks held) "+what+" outside the validated fork/join helper: if the other side never answers (a cancelled feeder, a worker that returned early) the request keeps its keys for ever and every later request queues behind it", "below the dispatch, goroutines and channel waits only inside the fork/join helper", PathTo(pred, f))
				}
			}
		}
	}
	for f := range pred {
		if f.Blocks == nil || !prog.InModule(f) {
			continue
		}
		for _, fb := range f.Blocks {
			for _, ins := range fb.Instrs {
				var g *ssa.Global
				switch x := ins.(type) {
				case *ssa.Send:
					g, _ = isGlobalChan(x.Chan)
				case *ssa.UnOp:
					if x.Op == token.ARROW {
						g, _ = isGlobalChan(x.X)
					}
				case *ssa.Select:
					if x.Blocking {
						for _, st := range x.States {
							if gg, ok := isGlobalChan(st.Chan); ok {
								g = gg
							}
						}
					}
				}
				if g != nil {
					bad = true
					c.R.Fail(rule, Fn(f)+":"+g.Name(), c.Pos(ins), "rule evaluation (which runs with key locks held) blocks on the process-wide channel "+g.Name()+": requests holding keys can wait for capacity held by requests waiting for those keys", "nothing below the dispatch waits on a resource shared between requests", PathTo(pred, f))
				}
			}
		}
	}
	c.R.Count("functions_reachable_from_dispatch", len(pred))
	c.R.Floor(rule, "module functions reachable from the dispatch", len(pred), 10)
	// RunRules itself holds no other module mutex across the locker calls
	for _, ci := range Calls(r.RunRules, func(ci ssa.CallInstruction) bool { _, ok := mutexOp(ci); return ok }) {
		bad = true
		c.R.Fail(rule, Fn(r.RunRules)+":mutex", c.Pos(ci), "RunRules takes another mutex around the locker calls", "no other lock is held across PreLock/Lock", nil)
	}
	// lock-order: module mutexes acquired below the dispatch must be leaves: while holding them no call may reach the locker (covered above,
	// since reaching the locker at all is forbidden).
	if !bad {
		c.R.OK(rule, Fn(r.RunRules), c.P.FuncPos(r.RunRules), fmt.Sprintf("%d module functions are reachable from the dispatch; none is RunRules or a locker method", len(pred)))
	}
	var _ = types.Identical
}

// RequestPathWaits (C04.O7 request-path.no-foreign-waits): the per-key locks make requests on one key serial, and what each
// request answers then depends only on the requests before it. That argument needs every step of a signing request outside
// the rules (lookup, permission check, unlock, hashing, signing) to depend on no other request in flight: nothing reachable
// from the signer's endpoints - other than through RunRules, whose subtree is the subject of C15.O3 - starts a goroutine,
// sends or waits on a channel outside the validated fork/join helper. A request that waits for another request's result
// (coalesced unlocks, shared futures, single-flight) can be refused - or time out - in one interleaving although it is
// signed in every serial order.
func (c *Ctx) RequestPathWaits(prop string) {
	rule := "C04.O7 request-path.no-foreign-waits"
	sg := c.Signer(prop + ".anchors")
	r := c.Ruler(prop + ".anchors")
	if !sg.OK() || !r.OK() {
		return
	}
	g := c.ModGraph()
	var roots []*ssa.Function
	for _, n := range signerEndpoints {
		roots = append(roots, sg.Endpoints[n])
		if w := sg.Wrapper[sg.Endpoints[n]]; w != nil {
			roots = append(roots, w)
		}
	}
	pred := g.Reach(roots, map[*ssa.Function]bool{r.RunRules: true})
	sc := c.ScatterHelper(rule)
	inScatter := func(f *ssa.Function) bool {
		for h := f; h != nil; h = h.Parent() {
			if h == sc {
				return true
			}
		}
		return sc != nil && c.onlyCalledFrom(f, map[*ssa.Function]bool{sc: true}, 1)
	}
	n, bad := 0, 0
	var fns []*ssa.Function
	for f := range pred {
		fns = append(fns, f)
	}
	// the gRPC interceptors and handlers in front of the signer service are part of the request's path too: a queue or dispatcher there merges
	// requests before they reach the service (their functions are scanned whether or not they reach RunRules statically - a
	// dispatcher goroutine is exactly what cuts that path)
	for _, f := range c.P.ModuleFuncs() {
		if (strings.HasSuffix(prog.PkgPathOf(f), "/handlers/signer") || strings.HasSuffix(prog.PkgPathOf(f), "/services/api/grpc/interceptors")) && !prog.IsTestish(prog.PkgPathOf(f)) && f.Blocks != nil {
			if _, dup := pred[f]; !dup {
				fns = append(fns, f)
			}
		}
	}
	sort.Slice(fns, func(i, j int) bool { return fns[i].String() < fns[j].String() })
	for _, f := range fns {
		if f.Blocks == nil || !prog.InModule(f) || prog.IsTestish(prog.PkgPathOf(f)) || inScatter(f) {
			continue
		}
		n++
		for _, fb := range f.Blocks {
			for _, ins := range fb.Instrs {
				what := ""
				switch x := ins.(type) {
				case *ssa.Go:
					what = "starts a goroutine"
				case *ssa.Send:
					what = "sends on a channel"
				case *ssa.Select:
					what = "waits in a select"
				case *ssa.UnOp:
					if x.Op == token.ARROW {
						what = "waits for a channel"
					}
				case ssa.CallInstruction:
					if cal := x.Common().StaticCallee(); cal != nil {
						switch cal.String() {
						case "(*sync.Cond).Wait":
							what = "waits on a condition variable"
						case "(*sync.WaitGroup).Wait":
							what = "waits for a wait group"
						}
					}
				}
				if what != "" {
					bad++
					c.R.Fail(rule, Fn(f), c.Pos(ins), "a step of a signing request outside the rules "+what+" outside the validated fork/join helper: the request's outcome can depend on another request in flight (a refusal or time-out that no serial order produces)", "on the signing path, goroutines and channel operations only inside the fork/join helper", PathTo(pred, f))
				}
			}
		}
	}
	c.R.Floor(rule, "functions on the signing path outside the rules", n, 15)
	if bad == 0 {
		c.R.OK(rule, "signing path", "-", fmt.Sprintf("%d functions reachable from the signer endpoints (not through RunRules): no goroutine, send, receive or select outside the fork/join helper", n))
	}
}
