package rules

import (
	"fmt"
	"go/constant"
	"go/token"
	"go/types"
	"strings"

	"dirkcheck/internal/an"
	"dirkcheck/internal/prog"

	"golang.org/x/tools/go/ssa"
)

// DivisionGuarded (C20.O8 division.nonzero): an integer division or remainder by zero is a run-time panic, and no recovery
// interceptor is installed (in the batch endpoints it would run in a scatter worker, where none could help): the process
// dies. In production code of the module every integer `/` and `%` has a divisor that is a non-zero constant, or is shown
// non-zero where it is used by a small sign analysis:
//
//	nonzero(d): a path guard [d != 0], [0 < d], [1 <= d] on every path to the division, or positive(d)
//	positive(v): a positive constant; runtime.GOMAXPROCS / NumCPU; a guard [K < v] (K >= 0) or [K <= v] (K >= 1) on every
//	             path; nonneg(v) with a guard [v != 0]; a phi of positive values; positive + nonneg; positive * positive;
//	             a parameter that every static caller fills with a positive value; the result of a module function all
//	             of whose returns are positive
//	nonneg(v):   positive(v); a constant >= 0; len / cap; an unsigned type; nonneg / positive; nonneg % x; sums and phis of
//	             nonneg values; a guard [K <= v] (K >= 0); parameters / results as above
//
// Integer conversions are read through (a narrowing conversion of a huge non-zero length to zero is not considered), and
// arithmetic overflow is not considered. len(x) of one slice value read twice counts as one value.
func (c *Ctx) DivisionGuarded(prop string) {
	rule := "C20.O8 division.nonzero"
	sa := &signAn{c: c, memo: map[string]int{}}
	n := 0
	for _, fn := range c.P.ModuleFuncs() {
		p := prog.PkgPathOf(fn)
		if prog.IsTestish(p) || fn.Blocks == nil || strings.Contains(p, "/mock") || strings.Contains(p, "/testing") {
			continue
		}
		if strings.Contains(c.P.FuncPos(fn), ".pb.go") {
			continue
		}
		for _, b := range fn.Blocks {
			for _, ins := range b.Instrs {
				bo, ok := ins.(*ssa.BinOp)
				if !ok || (bo.Op != token.QUO && bo.Op != token.REM) {
					continue
				}
				bt, ok := bo.Type().Underlying().(*types.Basic)
				if !ok || bt.Info()&types.IsInteger == 0 {
					continue
				}
				if k, isK := bo.Y.(*ssa.Const); isK {
					if k.Value != nil && constant.Sign(k.Value) != 0 {
						continue
					}
				}
				n++
				if sa.nonzero(bo.Y, bo, 0) {
					c.R.OK(rule, Fn(fn)+":"+an.Term(bo.Y), c.Pos(bo), "the divisor is non-zero on every path to the "+bo.Op.String())
				} else {
					c.R.Fail(rule, Fn(fn)+":"+an.Term(bo.Y), c.Pos(bo), "integer "+map[token.Token]string{token.QUO: "division", token.REM: "remainder"}[bo.Op]+" by a value that can be zero ("+an.Term(bo.Y)+"): a run-time panic that takes the process down", "divisor: a non-zero constant, or guarded / positive by construction on every path", nil)
				}
			}
		}
	}
	c.R.Floor(rule, "integer divisions by a non-constant in production code", n, 3)
	_ = fmt.Sprint
}

type signAn struct {
	c    *Ctx
	memo map[string]int // 0 unknown, 1 in progress, 2 true, 3 false
}

func stripIntConv(v ssa.Value) ssa.Value {
	for i := 0; i < 4; i++ {
		switch x := v.(type) {
		case *ssa.Convert:
			if b, ok := x.X.Type().Underlying().(*types.Basic); ok && b.Info()&types.IsInteger != 0 {
				v = x.X
				continue
			}
		case *ssa.ChangeType:
			v = x.X
			continue
		}
		break
	}
	return v
}

// sameNum: one value, or two reads of the length of one slice / one field.
func sameNum(a, b ssa.Value) bool {
	a, b = stripIntConv(a), stripIntConv(b)
	if a == b || sameValue(a, b) {
		return true
	}
	ca, ok1 := a.(*ssa.Call)
	cb, ok2 := b.(*ssa.Call)
	if ok1 && ok2 {
		ba, ok1 := ca.Call.Value.(*ssa.Builtin)
		bb, ok2 := cb.Call.Value.(*ssa.Builtin)
		if ok1 && ok2 && ba.Name() == bb.Name() && (ba.Name() == "len" || ba.Name() == "cap") {
			x, y := ca.Call.Args[0], cb.Call.Args[0]
			return x == y || sameValue(x, y)
		}
	}
	return false
}

func constI(v ssa.Value) (int64, bool) {
	k, ok := v.(*ssa.Const)
	if !ok || k.Value == nil || k.Value.Kind() != constant.Int {
		return 0, false
	}
	if i, exact := constant.Int64Val(k.Value); exact {
		return i, true
	}
	if constant.Sign(k.Value) > 0 {
		return 1 << 62, true
	}
	return 0, false
}

// guarded: every path from the function's entry to `at` crosses an edge whose atom satisfies pred.
func (s *signAn) guarded(at ssa.Instruction, pred func(a *an.Atom) bool) bool {
	fn := at.Parent()
	x, _ := an.Cut(an.CutQuery{From: an.Entry(fn), Target: func(i ssa.Instruction) bool { return i == at },
		AcceptEdge: func(b *ssa.BasicBlock, i int, a *an.Atom) bool { return a != nil && pred(a) }})
	return x == nil
}

func (s *signAn) key(kind string, v ssa.Value, at ssa.Instruction) string {
	return fmt.Sprintf("%s|%p|%p", kind, v, at)
}

func (s *signAn) nonzero(v ssa.Value, at ssa.Instruction, d int) bool {
	if k, ok := constI(stripIntConv(v)); ok {
		return k != 0
	}
	if s.guarded(at, func(a *an.Atom) bool {
		switch a.Op {
		case "!=":
			if k, ok := constI(a.RV); ok && k == 0 && sameNum(a.LV, v) {
				return true
			}
			if k, ok := constI(a.LV); ok && k == 0 && sameNum(a.RV, v) {
				return true
			}
		}
		return false
	}) {
		return true
	}
	return s.positive(v, at, d)
}

func (s *signAn) lowerGuard(v ssa.Value, at ssa.Instruction, min int64) bool {
	// [K < v] with K >= min-1, or [K <= v] with K >= min
	return s.guarded(at, func(a *an.Atom) bool {
		k, ok := constI(a.LV)
		if !ok || !sameNum(a.RV, v) {
			return false
		}
		switch a.Op {
		case "<":
			return k >= min-1
		case "<=":
			return k >= min
		case "==":
			return k >= min
		}
		return false
	}) || s.guarded(at, func(a *an.Atom) bool {
		// [v == K]
		k, ok := constI(a.RV)
		return ok && a.Op == "==" && sameNum(a.LV, v) && k >= min
	})
}

// relGuard: every path to `at` crosses [w < v] with w non-negative (then v is positive), or [w <= v] with w positive
// (strict) / non-negative (not strict): the body of `for i := range x` runs only below [i < len(x)], i >= 0.
func (s *signAn) relGuard(v ssa.Value, at ssa.Instruction, d int, strict bool) bool {
	fn := at.Parent()
	x, _ := an.Cut(an.CutQuery{From: an.Entry(fn), Target: func(i ssa.Instruction) bool { return i == at },
		AcceptEdge: func(b *ssa.BasicBlock, i int, a *an.Atom) bool {
			if a == nil || !sameNum(a.RV, v) {
				return false
			}
			if _, isK := a.LV.(*ssa.Const); isK {
				return false
			}
			here := b.Instrs[len(b.Instrs)-1]
			switch a.Op {
			case "<":
				return s.nonneg(a.LV, here, d+1)
			case "<=":
				if strict {
					return s.positive(a.LV, here, d+1)
				}
				return s.nonneg(a.LV, here, d+1)
			}
			return false
		}})
	return x == nil
}

// counterLower: the least value of a loop counter `phi(c0, phi + k)` (k > 0), or of `counter + k`.
func counterLower(v ssa.Value) (int64, bool) {
	add := int64(0)
	if bo, ok := v.(*ssa.BinOp); ok && bo.Op == token.ADD {
		k, isK := constI(bo.Y)
		if !isK {
			return 0, false
		}
		add = k
		v = bo.X
	}
	phi, ok := v.(*ssa.Phi)
	if !ok {
		return 0, false
	}
	lo, have := int64(0), false
	for _, e := range phi.Edges {
		if k, isK := constI(e); isK {
			if !have || k < lo {
				lo, have = k, true
			}
			continue
		}
		bo, isBo := e.(*ssa.BinOp)
		if !isBo || bo.Op != token.ADD || bo.X != ssa.Value(phi) {
			return 0, false
		}
		if k, isK := constI(bo.Y); !isK || k <= 0 {
			return 0, false
		}
	}
	if !have {
		return 0, false
	}
	return lo + add, true
}

func (s *signAn) positive(v ssa.Value, at ssa.Instruction, d int) bool {
	return s.sign(v, at, d, true)
}

func (s *signAn) nonneg(v ssa.Value, at ssa.Instruction, d int) bool {
	return s.sign(v, at, d, false)
}

// sign: strict = positive, otherwise non-negative.
func (s *signAn) sign(v ssa.Value, at ssa.Instruction, d int, strict bool) bool {
	if d > 8 {
		return false
	}
	kind := "nn"
	var min int64
	if strict {
		kind, min = "pos", 1
	}
	key := s.key(kind, v, at)
	switch s.memo[key] {
	case 1, 3:
		return false
	case 2:
		return true
	}
	s.memo[key] = 1
	r := s.sign1(v, at, d, strict, min)
	if r {
		s.memo[key] = 2
	} else {
		s.memo[key] = 3
	}
	return r
}

func (s *signAn) sign1(v ssa.Value, at ssa.Instruction, d int, strict bool, min int64) bool {
	if k, ok := constI(v); ok {
		return k >= min
	}
	if s.lowerGuard(v, at, min) {
		return true
	}
	if lo, ok := counterLower(v); ok && lo >= min {
		return true
	}
	if d < 4 && s.relGuard(v, at, d, strict) {
		return true
	}
	if strict {
		// nonneg and != 0
		if s.nonneg(v, at, d+1) && s.guarded(at, func(a *an.Atom) bool {
			if a.Op != "!=" {
				return false
			}
			if k, ok := constI(a.RV); ok && k == 0 && sameNum(a.LV, v) {
				return true
			}
			if k, ok := constI(a.LV); ok && k == 0 && sameNum(a.RV, v) {
				return true
			}
			return false
		}) {
			return true
		}
	} else if b, ok := v.Type().Underlying().(*types.Basic); ok && b.Info()&types.IsUnsigned != 0 {
		return true
	}
	switch x := v.(type) {
	case *ssa.Convert, *ssa.ChangeType:
		in := stripIntConv(v)
		if in != v {
			return s.sign(in, at, d+1, strict)
		}
	case *ssa.Call:
		if bi, ok := x.Call.Value.(*ssa.Builtin); ok {
			switch bi.Name() {
			case "len", "cap":
				return !strict
			case "max":
				for _, a := range x.Call.Args {
					if s.sign(a, at, d+1, strict) {
						return true
					}
				}
			case "min":
				for _, a := range x.Call.Args {
					if !s.sign(a, at, d+1, strict) {
						return false
					}
				}
				return len(x.Call.Args) > 0
			}
			return false
		}
		f := x.Call.StaticCallee()
		if f == nil || x.Call.IsInvoke() {
			return false
		}
		if f.Pkg != nil && f.Pkg.Pkg.Path() == "runtime" && (f.Name() == "GOMAXPROCS" || f.Name() == "NumCPU") {
			return true
		}
		if !prog.InModule(f) || f.Blocks == nil || f.Signature.Results().Len() != 1 {
			return false
		}
		rets := an.Returns(f)
		if len(rets) == 0 {
			return false
		}
		for _, ret := range rets {
			if !s.sign(an.Result(ret, 0), ret, d+1, strict) {
				return false
			}
		}
		return true
	case *ssa.Phi:
		for j, e := range x.Edges {
			pred := x.Block().Preds[j]
			if !s.sign(e, pred.Instrs[len(pred.Instrs)-1], d+1, strict) {
				return false
			}
		}
		return true
	case *ssa.BinOp:
		switch x.Op {
		case token.ADD:
			if strict {
				return (s.positive(x.X, at, d+1) && s.nonneg(x.Y, at, d+1)) || (s.nonneg(x.X, at, d+1) && s.positive(x.Y, at, d+1))
			}
			return s.nonneg(x.X, at, d+1) && s.nonneg(x.Y, at, d+1)
		case token.MUL:
			return s.sign(x.X, at, d+1, strict) && s.sign(x.Y, at, d+1, strict)
		case token.QUO:
			return !strict && s.nonneg(x.X, at, d+1) && s.positive(x.Y, at, d+1)
		case token.REM:
			return !strict && s.nonneg(x.X, at, d+1)
		}
	case *ssa.Parameter:
		fn := x.Parent()
		if fn == nil {
			return false
		}
		if refs := fn.Referrers(); refs != nil && len(*refs) > 0 {
			// used as a value somewhere besides being called: callers unknown - check the referrers are all calls of it
			for _, r := range *refs {
				ci, ok := r.(ssa.CallInstruction)
				if !ok || ci.Common().Value != ssa.Value(fn) {
					return false
				}
			}
		}
		idx := -1
		for i, q := range fn.Params {
			if q == x {
				idx = i
			}
		}
		callers := s.c.staticCallers()[fn]
		if idx < 0 || len(callers) == 0 || fn.Object() == nil || fn.Object().Exported() && fn.Signature.Recv() != nil {
			// an exported method can be called through its interface: callers unknown
			if !(idx >= 0 && len(callers) > 0 && fn.Signature.Recv() == nil && fn.Object() != nil) {
				return false
			}
		}
		for _, K := range callers {
			if idx >= len(K.Common().Args) {
				return false
			}
			if !s.sign(K.Common().Args[idx], K.(ssa.Instruction), d+1, strict) {
				return false
			}
		}
		return true
	}
	return false
}
