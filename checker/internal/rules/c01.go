package rules

func init() {
	register(&Spec{
		ID: "C01",
		Run: func(c *Ctx) {
			s := c.Slashing("C01.anchors")
			if !s.OK() {
				return
			}
			c.WatermarkGuards("C01", s, "att")
			c.WatermarkConversions("C01", s, "att")
			c.RecordBeforeApprove("C01", s, "att")
			c.EntryAlignment("C01", s, "att")
			c.StateStoreDiscipline("C01", s, "att")
			c.RulerLocking("C01")
			c.OneInstance("C01", "locker", "ruler")
			c.LockerInternals("C15") // holding the key's lock means holding it: Lock returns only with the key's one mutex acquired
			c.RulerKeyAgreement("C01")
			c.RulerPositions("C01")
			c.MetadataImmutable("C01")
			c.SignIffApproved("C01", map[string]bool{"SignBeaconAttestation": true, "SignBeaconAttestations": true})
			c.SigningRootProvenance("C01")
			c.StoreCommit("C03", s)
			// the histories quantified over include restarts: the record must survive them
			c.SyncOption("C03")
			c.SameStore("C10") // incl. C03.O7: the database directory does not depend on the working directory, so a restart finds the same records
			c.WhoWrites("C03")
			c.DomainRules("C05")   // slashable objects are signed only through the protected endpoints
			c.ForkJoinRules("C03") // rule evaluation finishes (and records) before RunRules returns and the key locks are released
			c.BadgerBufferDiscipline("C11")
		},
		Explanation: "Structural obligations whose conjunction implies that a stored attestation watermark (S,T) bounds every released attestation and that a new one is approved only if it neither double-votes nor surrounds/is surrounded: see DESIGN.md §5 C01.",
		Trusted:     append([]string{"badger returns the last committed value for a key", "BLS signing"}, commonTrusted...),
	})
}
