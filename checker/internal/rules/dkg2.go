package rules

import (
	"go/token"
	"go/types"
	"strings"

	"dirkcheck/internal/an"
	"dirkcheck/internal/prog"

	"golang.org/x/tools/go/ssa"
)

// VerifiedBeforeSuccess: C12.O2 in the distributed generation driver.
func (c *Ctx) VerifiedBeforeSuccess(prop string) {
	rule := "C12.O2 verified-before-success"
	p := c.Proc(prop + ".anchors")
	if !p.OK() {
		return
	}
	var D *ssa.Function
	for _, fn := range c.P.ModuleFuncs() {
		if prog.PkgPathOf(fn) != p.Impl.Obj().Pkg().Path() || fn.Parent() != nil {
			continue
		}
		for _, f := range WithClosures(fn) {
			for range Calls(f, func(ci ssa.CallInstruction) bool {
				return ci.Common().IsInvoke() && namedIs(ci.Common().Value.Type(), pkgSender, "Service") && ci.Common().Method.Name() == "Commit"
			}) {
				D = fn
			}
		}
	}
	if D == nil {
		c.R.Anchor(rule, "driver", "no function sending commit messages found")
		return
	}
	// the driver may have been split: T is the function that reports the generation's success (D itself, or its single static
	// caller in the package); the reply collection, the key comparison and the window checks may each live in T or in a
	// helper T calls. A check located in a helper H is linked to T's success by: H returns a nil error only after the check
	// completed, and T's success returns are cut by [H(...) err == nil].
	D0 := D
	T := D
	{
		var callers []*ssa.Function
		for _, cs := range c.staticCallers()[D] {
			if cs.Parent() != nil && prog.PkgPathOf(cs.Parent()) == prog.PkgPathOf(D) {
				callers = append(callers, cs.Parent())
			}
		}
		if len(callers) == 1 && errResultIndex(D) >= 0 {
			// only if the caller looks like the driver (it returns the key): otherwise D is the driver
			isProto := false
			for _, m := range p.Methods {
				if m == callers[0] {
					isProto = true
				}
			}
			if !isProto && strings.Contains(strings.ToLower(callers[0].Name()), "distributed") || (!isProto && len(c.staticCallers()[callers[0]]) > 0 && callers[0].Signature.Results().Len() == 3) {
				T = callers[0]
			}
		}
	}
	unit := []*ssa.Function{T}
	for _, ci := range Calls(T, func(ci ssa.CallInstruction) bool {
		g := ci.Common().StaticCallee()
		return g != nil && g.Blocks != nil && !ci.Common().IsInvoke() && prog.PkgPathOf(g) == prog.PkgPathOf(T)
	}) {
		unit = append(unit, ci.Common().StaticCallee())
	}
	// successNeeds: every success return of T lies behind the completion edge `done` of a check located in fX
	successNeeds := func(fX *ssa.Function, done func(b *ssa.BasicBlock, i int) bool) (bool, []string) {
		kT := errResultIndex(T)
		if fX == T {
			for _, ret := range an.Returns(T) {
				if !isNilConst(unwrapErr(an.Result(ret, kT))) {
					continue
				}
				target := ssa.Instruction(ret)
				if x, path := an.Cut(an.CutQuery{From: an.Entry(T), Target: func(i ssa.Instruction) bool { return i == target },
					AcceptEdge: func(b *ssa.BasicBlock, i int, a *an.Atom) bool { return done(b, i) }}); x != nil {
					return false, an.PathString(c.Pos, path)
				}
			}
			return true, nil
		}
		kX := errResultIndex(fX)
		if kX < 0 {
			return false, []string{Fn(fX) + " returns no error"}
		}
		for _, ret := range an.Returns(fX) {
			if !isNilConst(unwrapErr(an.Result(ret, kX))) {
				continue
			}
			target := ssa.Instruction(ret)
			if x, path := an.Cut(an.CutQuery{From: an.Entry(fX), Target: func(i ssa.Instruction) bool { return i == target },
				AcceptEdge: func(b *ssa.BasicBlock, i int, a *an.Atom) bool { return done(b, i) }}); x != nil {
				return false, append([]string{"in " + Fn(fX) + ":"}, an.PathString(c.Pos, path)...)
			}
		}
		errs := map[ssa.Value]bool{}
		for _, ci := range Calls(T, func(ci ssa.CallInstruction) bool { return ci.Common().StaticCallee() == fX }) {
			for _, e := range errValuesOfCall(ci) {
				errs[e] = true
			}
		}
		for _, ret := range an.Returns(T) {
			if !isNilConst(unwrapErr(an.Result(ret, kT))) {
				continue
			}
			target := ssa.Instruction(ret)
			if x, path := an.Cut(an.CutQuery{From: an.Entry(T), Target: func(i ssa.Instruction) bool { return i == target },
				AcceptEdge: func(b *ssa.BasicBlock, i int, a *an.Atom) bool { return errNilAtom(a, errs) }}); x != nil {
				return false, an.PathString(c.Pos, path)
			}
		}
		return true, nil
	}
	// argument of T's call of fX that corresponds to fX's parameter v (identity if fX == T)
	argInT := func(fX *ssa.Function, v ssa.Value) ssa.Value {
		if fX == T {
			return v
		}
		q, ok := v.(*ssa.Parameter)
		if !ok {
			return nil
		}
		for _, ci := range Calls(T, func(ci ssa.CallInstruction) bool { return ci.Common().StaticCallee() == fX }) {
			for i, qq := range fX.Params {
				if qq == q && i < len(ci.Common().Args) {
					return ci.Common().Args[i]
				}
			}
		}
		return nil
	}
	_ = D0
	// (a) reply collection loop: `for r := range ch`: iterations continue only past err == nil, non-empty key, non-empty signature
	var recvHdr *ssa.BasicBlock
	for _, b := range D.Blocks {
		iff, ok := b.Instrs[len(b.Instrs)-1].(*ssa.If)
		if !ok {
			continue
		}
		ex, ok := iff.Cond.(*ssa.Extract)
		if !ok || ex.Index != 1 {
			continue
		}
		if u, ok := ex.Tuple.(*ssa.UnOp); ok && u.Op == token.ARROW && u.CommaOk {
			recvHdr = b
		}
	}
	// the iteration of the reply loop: from where a reply is in hand to where the next one is taken; the edge on which the
	// collection is complete
	var iterFrom an.Point
	var iterNext func(ssa.Instruction) bool
	exitEdge := func(b *ssa.BasicBlock, i int) bool { return recvHdr != nil && b == recvHdr && i == 1 }
	var replyPos ssa.Instruction
	if recvHdr != nil {
		iterFrom = an.Point{Block: recvHdr.Succs[0], Idx: 0}
		first := recvHdr.Instrs[0]
		iterNext = func(i ssa.Instruction) bool { return i == first }
		replyPos = first
	} else {
		// `for range len(participants) { reply := <-ch; ... }`: a counted loop with one plain receive per iteration
		isRecv := func(i ssa.Instruction) bool {
			u, ok := i.(*ssa.UnOp)
			return ok && u.Op == token.ARROW && !u.CommaOk
		}
		for _, l := range FindRotLoops(D) {
			var recv ssa.Instruction
			nrecv := 0
			for b := range l.Body {
				for _, i := range b.Instrs {
					if isRecv(i) {
						recv = i
						nrecv++
					}
				}
			}
			if nrecv != 1 {
				continue
			}
			latchIf := l.Latch.Instrs[len(l.Latch.Instrs)-1]
			// every iteration receives
			if x, _ := an.Cut(an.CutQuery{From: an.Point{Block: l.Head, Idx: 0}, Target: func(i ssa.Instruction) bool { return i == latchIf }, AcceptInstr: func(i ssa.Instruction) bool { return i == recv }}); x != nil {
				continue
			}
			iterFrom = an.After(recv)
			iterNext = func(i ssa.Instruction) bool { return i == latchIf }
			latch := l.Latch
			exitEdge = func(b *ssa.BasicBlock, i int) bool { return b == latch && i == 1 }
			replyPos = recv
		}
	}
	if iterNext == nil {
		c.R.Unknown(rule, Fn(D)+":replies", c.P.FuncPos(D), "no loop receiving the commit replies found")
	} else {
		checks := []struct {
			name string
			acc  func(a *an.Atom) bool
		}{
			{"reply error == nil", func(a *an.Atom) bool {
				if a == nil || a.Op != "==" {
					return false
				}
				for _, side := range [][2]ssa.Value{{a.LV, a.RV}, {a.RV, a.LV}} {
					if isNilConst(side[1]) && isErrorType(side[0].Type()) {
						if f, ok := side[0].(*ssa.Field); ok && strings.Contains(strings.ToLower(fieldNameOfField(f)), "err") {
							return true
						}
						if owner, f, _ := an.FieldOf(side[0]); owner != nil && strings.Contains(strings.ToLower(f), "err") {
							return true
						}
					}
				}
				return false
			}},
			{"public key non-empty", func(a *an.Atom) bool { return lenNonZeroOfField(a, "pubkey") }},
			{"confirmation signature non-empty", func(a *an.Atom) bool { return lenNonZeroOfField(a, "sig") }},
		}
		for _, ck := range checks {
			ck := ck
			// (the tests may sit in a validation method of the reply: `if err := reply.check(); err != nil { return }`)
			x, path := an.Cut(an.CutQuery{From: iterFrom, Target: iterNext,
				AcceptEdge: c.WithSummaries(func(a *an.Atom, _ Subst) bool { return ck.acc(a) })})
			if x != nil {
				c.R.Fail(rule, Fn(D)+":"+ck.name, c.Pos(replyPos), "the driver goes on to the next commit reply without ["+ck.name+"]", "every reply: error-free, key and signature present", an.PathString(c.Pos, path))
			} else {
				c.R.OK(rule, Fn(D)+":"+ck.name, c.Pos(replyPos), "each reply is accepted only past ["+ck.name+"]")
			}
		}
	}
	// success returns
	k := errResultIndex(T)
	var succ []*ssa.Return
	for _, ret := range an.Returns(T) {
		if isNilConst(unwrapErr(an.Result(ret, k))) {
			succ = append(succ, ret)
		}
	}
	c.R.Floor(rule, "success returns of the driver", len(succ), 1)
	// the reply collection must have completed before success (it lives in D0)
	if D0 != T {
		if ok, wit := successNeeds(D0, exitEdge); !ok {
			c.R.Fail(rule, Fn(T)+":replies", c.P.FuncPos(T), "the driver can report success although the collection of commit replies failed or did not complete", "success only past ["+Fn(D0)+" err == nil]", wit)
		}
	}
	// (b) pairwise equality of the public keys: a full-range loop whose iterations continue only past bytes.Equal(keys[i], keys[...]) == true
	var eqLoop *Loop
	var keysRoot ssa.Value
	var eqFn *ssa.Function
	for _, uf := range unit {
		for _, l := range FindLoops(uf) {
			if l.BoundLen == nil {
				continue
			}
			l := l
			// the scan starts at 0, or at 1 when every key is compared with the first
			fromOne := false
			if !l.FullRange {
				if l.Phi == nil || l.Idx != ssa.Value(l.Phi) {
					continue
				}
				for _, e := range l.Phi.Edges {
					if an.IsConstInt(e, 1) {
						fromOne = true
					}
				}
				if !fromOne {
					continue
				}
			}
			ok := false
			hdr := l.Header
			x, _ := an.Cut(an.CutQuery{From: an.Point{Block: l.BodyFirst, Idx: 0}, Target: func(i ssa.Instruction) bool { return i == hdr.Instrs[0] },
				AcceptEdge: func(b *ssa.BasicBlock, i int, a *an.Atom) bool {
					if a == nil || a.Op != "true" {
						return false
					}
					call, isCall := isCallToName(a.LV, "bytes.Equal")
					if !isCall {
						return false
					}
					for _, pair := range [][2]ssa.Value{{call.Call.Args[0], call.Call.Args[1]}, {call.Call.Args[1], call.Call.Args[0]}} {
						r1, i1, ok1 := elemLoad(pair[0])
						r2, i2, ok2 := elemLoad(pair[1])
						if !ok1 || !ok2 || r1 != l.BoundLen || r2 != l.BoundLen || i1 != l.Idx {
							continue
						}
						// the partner: the first key, or (on a scan from 0) the cyclic neighbour (i+1) % len(keys)
						if an.IsConstInt(i2, 0) {
							ok = true
							return true
						}
						if rem, isRem := i2.(*ssa.BinOp); isRem && rem.Op == token.REM && !fromOne {
							add, isAdd := rem.X.(*ssa.BinOp)
							if isAdd && add.Op == token.ADD && add.X == l.Idx && an.IsConstInt(add.Y, 1) && lenIs(rem.Y, l.BoundLen) {
								ok = true
								return true
							}
						}
					}
					return false
				}})
			if x == nil && ok {
				eqLoop, keysRoot, eqFn = l, l.BoundLen, uf
			}
		}
	}
	if eqLoop == nil {
		c.R.Fail(rule, Fn(D)+":same-key", c.P.FuncPos(D), "no scan comparing every participant's public key with its neighbour found", "for i := range pubKeys { pubKeys[i] == pubKeys[(i+1)%n] or fail }", nil)
	} else {
		{
			hdr, exitB := eqLoop.Header, eqLoop.Exit
			if ok, wit := successNeeds(eqFn, func(b *ssa.BasicBlock, i int) bool { return b == hdr && b.Succs[i] == exitB }); !ok {
				c.R.Fail(rule, Fn(D)+":same-key", c.P.FuncPos(T), "success is reachable without the comparison of all participants' public keys having completed", "success only after the pairwise comparison", wit)
			} else {
				c.R.OK(rule, Fn(D)+":same-key", c.P.FuncPos(T), "success only after every participant's key was compared equal to its cyclic neighbour's, or to the first key")
			}
		}
		keysInT := argInT(eqFn, keysRoot)
		for _, ret := range succ {
			// (d) the key returned is keys[0]
			root, idx, ok := elemLoad(an.Result(ret, 0))
			if !ok || keysInT == nil || root != sliceRootExact(keysInT) || !an.IsConstInt(idx, 0) {
				c.R.Fail(rule, Fn(D)+":returned-key", c.Pos(ret), "the key returned to the client is not one of the compared keys: "+an.Term(an.Result(ret, 0)), "return pubKeys[0]", nil)
			} else {
				c.R.OK(rule, Fn(D)+":returned-key", c.Pos(ret), "the key returned is pubKeys[0] of the compared list")
			}
		}
	}
	// (c) every window: recover error-free and verification true before the next window / success
	var recover, verify ssa.CallInstruction
	W := T
	for _, uf := range unit {
		for _, ci := range Calls(uf, func(ci ssa.CallInstruction) bool {
			f := ci.Common().StaticCallee()
			return f != nil && (f.Name() == "Recover" || f.Name() == "VerifyByte") && strings.Contains(f.String(), "bls.Sign")
		}) {
			W = uf
			if ci.Common().StaticCallee().Name() == "Recover" {
				recover = ci
			} else {
				verify = ci
			}
		}
	}
	if recover != nil && verify != nil && recover.Parent() != verify.Parent() {
		c.R.Unknown(rule, Fn(D)+":windows", c.Pos(recover), "recover and verify are in different functions")
		return
	}
	if recover == nil || verify == nil {
		c.R.Fail(rule, Fn(D)+":windows", c.P.FuncPos(D), "the driver does not recover and verify composite confirmation signatures", "for each window of t signatures: Recover ok and VerifyByte(pubKey, confirmationData) true", nil)
		return
	}
	// the window loop: `for i := range n+1-t` (rotated), or `for start := 0; start+t <= n; start++`
	type winLoop struct {
		cl     *cloop
		bound  ssa.Value // rotated form: the trip count expression
		leqW   ssa.Value // start+w <= n form: w
		leqLen ssa.Value // ... and n
		strict bool      // start+w < n: one window fewer
	}
	var win *winLoop
	consider := func(w *winLoop) {
		if w.cl.body[recover.Block()] && w.cl.body[verify.Block()] {
			if win == nil || len(w.cl.body) > len(win.cl.body) {
				win = w
			}
		}
	}
	for _, l := range FindRotLoops(W) {
		consider(&winLoop{cl: cloopOfRot(l), bound: l.Bound})
	}
	for _, blk := range W.Blocks {
		if len(blk.Instrs) == 0 {
			continue
		}
		iff, ok := blk.Instrs[len(blk.Instrs)-1].(*ssa.If)
		if !ok {
			continue
		}
		cond, ok := iff.Cond.(*ssa.BinOp)
		if !ok || (cond.Op != token.LEQ && cond.Op != token.LSS) {
			continue
		}
		// third form: `for start := 0; start <= n - w; start++` (the same n+1-w windows as start+w <= n)
		if phi, isPhi := cond.X.(*ssa.Phi); isPhi && cond.Op == token.LEQ && phi.Block() == blk && len(phi.Edges) == 2 {
			if sub, isSub := cond.Y.(*ssa.BinOp); isSub && sub.Op == token.SUB {
				okStep := false
				for k := 0; k < 2; k++ {
					if inc, ok := phi.Edges[k].(*ssa.BinOp); ok && inc.Op == token.ADD && inc.X == ssa.Value(phi) && an.IsConstInt(inc.Y, 1) && an.IsConstInt(phi.Edges[1-k], 0) {
						okStep = true
					}
				}
				if okStep {
					l := &Loop{Header: blk, Cond: cond, Idx: phi, Phi: phi, BodyFirst: blk.Succs[0], Exit: blk.Succs[1], Body: map[*ssa.BasicBlock]bool{}}
					st := []*ssa.BasicBlock{l.BodyFirst}
					for len(st) > 0 {
						x := st[len(st)-1]
						st = st[:len(st)-1]
						if x == blk || l.Body[x] {
							continue
						}
						l.Body[x] = true
						st = append(st, x.Succs...)
					}
					consider(&winLoop{cl: cloopOfLoop(l), leqW: sub.Y, leqLen: sub.X, strict: false})
				}
			}
			continue
		}
		add, ok := cond.X.(*ssa.BinOp)
		if !ok || add.Op != token.ADD {
			continue
		}
		for _, side := range [][2]ssa.Value{{add.X, add.Y}, {add.Y, add.X}} {
			phi, ok := side[0].(*ssa.Phi)
			if !ok || phi.Block() != blk || len(phi.Edges) != 2 {
				continue
			}
			okStep := false
			for k := 0; k < 2; k++ {
				if inc, ok := phi.Edges[k].(*ssa.BinOp); ok && inc.Op == token.ADD && inc.X == ssa.Value(phi) && an.IsConstInt(inc.Y, 1) && an.IsConstInt(phi.Edges[1-k], 0) {
					okStep = true
				}
			}
			if !okStep {
				continue
			}
			l := &Loop{Header: blk, Cond: cond, Idx: phi, Phi: phi, BodyFirst: blk.Succs[0], Exit: blk.Succs[1], Body: map[*ssa.BasicBlock]bool{}}
			st := []*ssa.BasicBlock{l.BodyFirst}
			for len(st) > 0 {
				x := st[len(st)-1]
				st = st[:len(st)-1]
				if x == blk || l.Body[x] {
					continue
				}
				l.Body[x] = true
				st = append(st, x.Succs...)
			}
			consider(&winLoop{cl: cloopOfLoop(l), leqW: side[1], leqLen: cond.Y, strict: cond.Op == token.LSS})
		}
	}
	if win == nil {
		c.R.Unknown(rule, Fn(D)+":windows", c.Pos(recover), "recover/verify are not inside a counted loop over windows")
		return
	}
	rerrs := map[ssa.Value]bool{}
	for _, e := range errValuesOfCall(recover) {
		rerrs[e] = true
	}
	for _, ck := range []struct {
		name string
		acc  func(a *an.Atom) bool
	}{
		{"Recover err == nil", func(a *an.Atom) bool { return errNilAtom(a, rerrs) }},
		{"VerifyByte == true", func(a *an.Atom) bool { return a != nil && a.Op == "true" && a.LV == verify.Value() }},
	} {
		ck := ck
		x, path := an.Cut(an.CutQuery{From: win.cl.iterStart, Target: win.cl.iterEnd,
			AcceptEdge: func(b *ssa.BasicBlock, i int, a *an.Atom) bool { return ck.acc(a) }})
		if x != nil {
			c.R.Fail(rule, Fn(D)+":windows:"+ck.name, c.Pos(verify), "a window of confirmation signatures is passed without ["+ck.name+"]", "every window: recover and verify", an.PathString(c.Pos, path))
		} else {
			c.R.OK(rule, Fn(D)+":windows:"+ck.name, c.Pos(verify), "every window iteration ends only past ["+ck.name+"]")
		}
	}
	// coverage: with n confirmation signatures and windows of t, the loop runs n+1-t times and window i holds the
	// signatures i .. i+t-1, so every participant's signature is in a verified window
	{
		strip := func(v ssa.Value) ssa.Value {
			for {
				switch x := v.(type) {
				case *ssa.Convert:
					v = x.X
				case *ssa.ChangeType:
					v = x.X
				default:
					return v
				}
			}
		}
		var tVal ssa.Value
		if mk, ok := sliceRootExact(recover.Common().Args[len(recover.Common().Args)-2]).(*ssa.MakeSlice); ok {
			tVal = strip(mk.Len)
		}
		isLen := func(v ssa.Value) bool {
			call, ok := v.(*ssa.Call)
			return ok && isBuiltin(call, "len")
		}
		okBound := false
		if win.leqW != nil {
			// start + w <= len(list): len+1-w windows
			okBound = tVal != nil && strip(win.leqW) == tVal && isLen(win.leqLen) && !win.strict
		} else if b, ok := strip(win.bound).(*ssa.BinOp); ok && tVal != nil {
			switch {
			case b.Op == token.SUB && strip(b.Y) == tVal: // (len + 1) - t
				if a, ok := b.X.(*ssa.BinOp); ok && a.Op == token.ADD {
					okBound = (isLen(a.X) && an.IsConstInt(a.Y, 1)) || (isLen(a.Y) && an.IsConstInt(a.X, 1))
				}
			case b.Op == token.ADD: // (len - t) + 1
				for _, side := range [][2]ssa.Value{{b.X, b.Y}, {b.Y, b.X}} {
					if sub, ok := side[0].(*ssa.BinOp); ok && sub.Op == token.SUB && isLen(sub.X) && strip(sub.Y) == tVal && an.IsConstInt(side[1], 1) {
						okBound = true
					}
				}
			}
		}
		// the inner loop fills the window: t steps (a count of t, or a range over list[start:start+t])
		isWindowOf := func(v ssa.Value) bool { // list[i : i+t]
			sl, ok := v.(*ssa.Slice)
			if !ok || sl.Low != win.cl.idx || sl.High == nil {
				return false
			}
			hi, ok := sl.High.(*ssa.BinOp)
			return ok && hi.Op == token.ADD && ((hi.X == win.cl.idx && strip(hi.Y) == tVal) || (hi.Y == win.cl.idx && strip(hi.X) == tVal))
		}
		var inner *cloop
		if tVal != nil {
			var cands []*cloop
			for _, l := range FindRotLoops(W) {
				cands = append(cands, cloopOfRot(l))
			}
			for _, l := range FindLoops(W) {
				if l.FullRange {
					cl := cloopOfLoop(l)
					if l.BoundLen != nil && isWindowOf(l.BoundLen) {
						cl.count = func() countExpr { return countExpr{v: tVal} }
					}
					cands = append(cands, cl)
				}
			}
			for _, cl := range cands {
				inside := len(cl.body) > 0
				for blk := range cl.body {
					if !win.cl.body[blk] {
						inside = false
					}
				}
				if inside && len(cl.body) < len(win.cl.body) && strip(cl.count().v) == tVal {
					inner = cl
				}
			}
		}
		nshift := 0
		okIdx := inner != nil
		if inner != nil {
			for b := range inner.body {
				for _, ins := range b.Instrs {
					ia, ok := ins.(*ssa.IndexAddr)
					if !ok {
						continue
					}
					if mk, isMk := sliceRootExact(ia.X).(*ssa.MakeSlice); isMk && strip(mk.Len) == tVal {
						continue // the window's own buffers, indexed by j
					}
					// list[i+j], or list[i:i+t][j]
					if add, ok := ia.Index.(*ssa.BinOp); ok && add.Op == token.ADD && ((add.X == win.cl.idx && add.Y == inner.idx) || (add.Y == win.cl.idx && add.X == inner.idx)) {
						nshift++
						continue
					}
					if ia.Index == inner.idx && isWindowOf(ia.X) {
						nshift++
						continue
					}
					okIdx = false
				}
			}
		}
		switch {
		case tVal == nil || inner == nil:
			c.R.Unknown(rule, Fn(D)+":windows:coverage", c.Pos(recover), "the filling of a window (a loop of t steps over the confirmation signatures) is not recognised")
		case !okBound:
			c.R.Fail(rule, Fn(D)+":windows:coverage", c.Pos(recover), "the number of windows is not len(participants)+1-t; signatures at the end of the list are in no verified window", "for i := range len(participants)+1-t", nil)
		case !okIdx || nshift < 2:
			c.R.Fail(rule, Fn(D)+":windows:coverage", c.Pos(recover), "window i is not filled from positions i .. i+t-1 of the participants and their confirmation signatures", "ids[j], sigs[j] from participants[i+j], confirmationSigs[i+j]", nil)
		default:
			c.R.OK(rule, Fn(D)+":windows:coverage", c.Pos(recover), "len(participants)+1-t windows, window i filled from positions i .. i+t-1: every confirmation signature is in a verified window")
		}
	}
	// the key verified against is deserialised from pubKeys[0]; the data is the confirmation data sent in commit
	okKey := false
	keysInT := argInT(eqFn, keysRoot)
	for _, ci := range Calls(W, func(ci ssa.CallInstruction) bool {
		f := ci.Common().StaticCallee()
		return f != nil && f.Name() == "Deserialize" && strings.Contains(f.String(), "PublicKey")
	}) {
		if ci.Common().Args[0] == verify.Common().Args[1] {
			if root, idx, ok := elemLoad(ci.Common().Args[1]); ok && an.IsConstInt(idx, 0) {
				// the list indexed is the compared list (the same value in T)
				if kw := argInT(W, root); kw != nil && keysInT != nil && sliceRootExact(kw) == sliceRootExact(keysInT) {
					okKey = true
				}
			}
		}
	}
	if !okKey {
		c.R.Fail(rule, Fn(D)+":windows:key", c.Pos(verify), "the composite signatures are not verified against the key that is returned (pubKeys[0])", "VerifyByte(key deserialised from pubKeys[0], confirmationData)", nil)
	} else {
		c.R.OK(rule, Fn(D)+":windows:key", c.Pos(verify), "verified against the key deserialised from pubKeys[0]")
	}
	// success only after the window loop (its zero-iteration bypass is the pre-header edge, see the note)
	if ok, wit := successNeeds(W, func(b *ssa.BasicBlock, i int) bool {
		return win.cl.normalExit(b, b.Succs[i]) || win.cl.bypass(b, b.Succs[i])
	}); !ok {
		c.R.Fail(rule, Fn(D)+":windows:order", c.P.FuncPos(T), "success is reachable without the window checks having completed", "success only after all windows verified", wit)
	} else {
		c.R.Notes = append(c.R.Notes, "C12.O2: the window loop can be skipped when len(participants)+1-threshold <= 0; excluded by C12.O1 (t <= n) given that the peers service returns n participants (not decided)")
	}
}

func fieldNameOfField(f *ssa.Field) string {
	if st, ok := f.X.Type().Underlying().(*types.Struct); ok && f.Field < st.NumFields() {
		return st.Field(f.Field).Name()
	}
	return ""
}

// lenNonZeroOfField: atom len(<struct>.<field containing frag>) != 0
func lenNonZeroOfField(a *an.Atom, frag string) bool {
	if a == nil || a.Op != "!=" {
		return false
	}
	for _, side := range [][2]ssa.Value{{a.LV, a.RV}, {a.RV, a.LV}} {
		if !an.IsConstInt(side[1], 0) {
			continue
		}
		call, ok := side[0].(*ssa.Call)
		if !ok || !isBuiltin(call, "len") {
			continue
		}
		t := strings.ToLower(an.Term(call.Call.Args[0]))
		if strings.Contains(t, frag) {
			return true
		}
	}
	return false
}
