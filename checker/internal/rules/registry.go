package rules

// Spec describes a property check.
type Spec struct {
	ID          string
	Run         func(c *Ctx)
	Explanation string
	Trusted     []string
	Assumptions []string
}

// Registry lists the implemented property checks.
var Registry = map[string]*Spec{}

func register(s *Spec) { Registry[s.ID] = s }

var commonTrusted = []string{
	"Go type checker and go/ssa of golang.org/x/tools v0.29.0 (the analysed program is the SSA form of /repo's working tree with -tags verif)",
	"VTA call graph (seeded by CHA) for production reachability",
}
