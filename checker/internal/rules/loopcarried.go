package rules

import (
	"strings"

	"dirkcheck/internal/an"
	"dirkcheck/internal/prog"

	"golang.org/x/tools/go/ssa"
)

// PerEntryValues (C18.O9 config.per-entry-values): the start-up code that turns a configured list of definitions into objects
// (core.InitStores: store definitions into wallet stores) builds each object from its own definition. A variable declared
// ahead of the loop and assigned only on some iterations (`if def.Passphrase != "" { passphrase = … }`) hands the previous
// entry's value to the next one: a plain store opened with the passphrase of the encrypted store before it silently skips
// every wallet it "cannot decrypt", and the listing answers without them. In package core, a value that a loop iteration can
// inherit unchanged from the iteration before (a header phi that reaches itself around the back edge, other than the loop
// counter and values only accumulated - appended to or stored - and never handed to a call) is not passed to a call inside
// the loop.
func (c *Ctx) PerEntryValues(prop string) {
	rule := "C18.O9 config.per-entry-values"
	n, bad := 0, 0
	for _, fn := range c.P.ModuleFuncs() {
		p := prog.PkgPathOf(fn)
		if !strings.HasSuffix(p, "/core") || prog.IsTestish(p) || fn.Blocks == nil {
			continue
		}
		for _, b := range fn.Blocks {
			// loop header: a predecessor that b dominates
			var backPreds []int
			for j, pr := range b.Preds {
				if b.Dominates(pr) {
					backPreds = append(backPreds, j)
				}
			}
			if len(backPreds) == 0 {
				continue
			}
			n++
			for _, ins := range b.Instrs {
				phi, ok := ins.(*ssa.Phi)
				if !ok {
					break
				}
				// can the value survive an iteration unchanged? follow the back-edge values through phis
				survives := false
				seen := map[ssa.Value]bool{}
				var walk func(v ssa.Value, d int)
				walk = func(v ssa.Value, d int) {
					if d > 6 || seen[v] {
						return
					}
					seen[v] = true
					if v == ssa.Value(phi) {
						survives = true
						return
					}
					if q, isPhi := v.(*ssa.Phi); isPhi {
						for _, e := range q.Edges {
							walk(e, d+1)
						}
					}
				}
				for _, j := range backPreds {
					walk(phi.Edges[j], 0)
				}
				if !survives {
					continue
				}
				// handed to a call inside the loop (directly, converted, or through a merging phi)?
				var used ssa.Instruction
				vals := []ssa.Value{phi}
				for q := range seen {
					if _, isPhi := q.(*ssa.Phi); isPhi {
						vals = append(vals, q)
					}
				}
				for _, v := range vals {
					if v.Referrers() == nil {
						continue
					}
					for _, r := range *v.Referrers() {
						if !b.Dominates(r.Block()) {
							continue
						}
						switch x := r.(type) {
						case ssa.CallInstruction:
							if bi, isB := x.Common().Value.(*ssa.Builtin); isB && (bi.Name() == "append" || bi.Name() == "len" || bi.Name() == "cap") {
								continue // accumulation
							}
							// only calls that can come round again (inside the loop)
							if inLoopBody(b, r.Block()) {
								used = r
							}
						case *ssa.Convert, *ssa.MakeInterface, *ssa.ChangeType:
							for _, r2 := range *x.(ssa.Value).Referrers() {
								if _, isCall := r2.(ssa.CallInstruction); isCall && inLoopBody(b, r2.Block()) {
									used = r2
								}
							}
						}
					}
				}
				if used != nil {
					bad++
					c.R.Fail(rule, Fn(fn)+":"+an.TypeStr(phi.Type()), c.Pos(used), "a value that an iteration can inherit unchanged from the previous entry is handed to a call inside the loop: an entry that does not set it is built with its predecessor's ("+phi.Comment+")", "per-entry values are declared inside the loop", nil)
				}
			}
		}
	}
	c.R.Floor(rule, "loops in package core", n, 1)
	if bad == 0 {
		c.R.OK(rule, "core", "-", "no loop in package core hands a value inherited from the previous iteration to a call")
	}
}

// inLoopBody: blk belongs to the loop headed by hdr (hdr dominates it and it can reach hdr again).
func inLoopBody(hdr, blk *ssa.BasicBlock) bool {
	if !hdr.Dominates(blk) {
		return false
	}
	seen := map[*ssa.BasicBlock]bool{}
	st := []*ssa.BasicBlock{blk}
	for len(st) > 0 {
		x := st[len(st)-1]
		st = st[:len(st)-1]
		if seen[x] {
			continue
		}
		seen[x] = true
		for _, s := range x.Succs {
			if s == hdr {
				return true
			}
			st = append(st, s)
		}
	}
	return false
}
