package rules

import (
	"go/token"
	"go/types"
	"strings"

	"dirkcheck/internal/an"
	"dirkcheck/internal/prog"

	"golang.org/x/tools/go/ssa"
)

// RulerPositions (C08.O7): the verdict list RunRules returns is index-aligned with the rules data it was given.
// Every returned list is (a) a list made with one slot per request whose non-constant entries are written by a scatter
// worker at its own index (C08.O6 ties everything else the worker touches to that index) and whose constant entries
// never approve, or (b) the result of a module helper that is handed the very same request list and is validated the
// same way, or (c) the result of the batch rule invoked on lists made per request and filled by workers at their own
// index. A verdict copied from one list to another outside a worker must keep its index.
func (c *Ctx) RulerPositions(prop string) {
	rule := "C08.O7 ruler.positions"
	r := c.Ruler(prop + ".anchors")
	if !r.OK() {
		return
	}
	approved, ok := c.EnumConst(rule, pkgRules, "APPROVED")
	if !ok {
		return
	}
	isVerdictList := func(t types.Type) bool {
		sl, ok := t.(*types.Slice)
		return ok && namedIs(sl.Elem(), pkgRules, "Result")
	}
	isDataList := func(t types.Type) bool {
		sl, ok := t.(*types.Slice)
		return ok && namedIs(sl.Elem(), pkgRuler, "RulesData")
	}
	nlists := 0
	seen := map[*ssa.Function]bool{}
	var stage func(F *ssa.Function, depth int) bool
	// storesOK validates the writes into the per-request list M of F
	storesOK := func(F *ssa.Function, M ssa.Value, dataP ssa.Value, validOther func(v ssa.Value) bool) bool {
		good := true
		for _, f := range WithClosures(F) {
			wl, isWorker := scatterLoopIdx(f)
			for _, b := range f.Blocks {
				for _, ins := range b.Instrs {
					st, ok := ins.(*ssa.Store)
					if !ok {
						continue
					}
					ia, ok := st.Addr.(*ssa.IndexAddr)
					if !ok || sliceRootExact(ia.X) != M {
						continue
					}
					if k, ok := st.Val.(*ssa.Const); ok {
						if an.IsConstInt(k, approved) {
							good = false
							c.R.Fail(rule, Fn(f), c.Pos(st), "a position is approved unconditionally", "APPROVED only as the verdict of a rule", nil)
						}
						continue
					}
					if isWorker && f != F {
						if ia.Index != wl.Idx {
							good = false
							c.R.Fail(rule, Fn(f), c.Pos(st), "a worker writes a verdict at a position other than its own", "results[i] at the worker's own index", nil)
						}
						continue
					}
					// outside a worker: a copy from a validated list at the same index
					root2, idx2, ok := elemLoad(st.Val)
					if ok && idx2 == ia.Index && validOther(root2) {
						continue
					}
					good = false
					c.R.Fail(rule, Fn(f), c.Pos(st), "a verdict is written to a position that is not the position of the request it was computed for: "+an.Term(st.Val), "results[i] = verdict of rulesData[i]", nil)
				}
			}
		}
		return good
	}
	stage = func(F *ssa.Function, depth int) bool {
		if seen[F] {
			return true
		}
		seen[F] = true
		if depth > 4 || F.Blocks == nil {
			c.R.Unknown(rule, Fn(F), c.P.FuncPos(F), "rule evaluation is nested too deeply to follow the verdict list")
			return false
		}
		var dataP ssa.Value
		for _, p := range F.Params {
			if isDataList(p.Type()) {
				dataP = p
			}
		}
		k := -1
		res := F.Signature.Results()
		for i := 0; i < res.Len(); i++ {
			if isVerdictList(res.At(i).Type()) {
				k = i
			}
		}
		if dataP == nil || k < 0 {
			c.R.Unknown(rule, Fn(F), c.P.FuncPos(F), "not a function from a rules-data list to a verdict list")
			return false
		}
		good := true
		// the request list itself stays as the caller handed it over: the caller pairs verdict i with its own entry i
		seenW := map[*ssa.Function]bool{}
		var listWritten func(G *ssa.Function, list ssa.Value, depth int)
		listWritten = func(G *ssa.Function, list ssa.Value, depth int) {
			if depth > 3 || G.Blocks == nil {
				return
			}
			for _, f := range WithClosures(G) {
				for _, b := range f.Blocks {
					for _, ins := range b.Instrs {
						switch x := ins.(type) {
						case *ssa.Store:
							if ia, ok := x.Addr.(*ssa.IndexAddr); ok && sliceRoot(ia.X) == list {
								good = false
								c.R.Fail(rule, Fn(f)+":request-list", c.Pos(x), "the ruler writes into the request list it was given: the caller's entry i is no longer the entry verdict i was computed for", "the request list is read-only for the ruler", nil)
							}
						case ssa.CallInstruction:
							cc := x.Common()
							if _, isB := cc.Value.(*ssa.Builtin); isB {
								continue
							}
							callee := cc.StaticCallee()
							for k, a := range cc.Args {
								v := a
								if mi, ok := v.(*ssa.MakeInterface); ok {
									v = mi.X
								}
								if _, isSlice := v.Type().Underlying().(*types.Slice); !isSlice || sliceRoot(v) != list {
									continue
								}
								if callee != nil && prog.InModule(callee) && !cc.IsInvoke() {
									// a module helper that is handed the list: examined in turn
									if k < len(callee.Params) && !seenW[callee] {
										seenW[callee] = true
										listWritten(callee, callee.Params[k], depth+1)
									}
									continue
								}
								if cc.IsInvoke() && namedIs(cc.Value.Type(), pkgRules, "Service") {
									continue
								}
								name := "a dynamic call"
								if callee != nil {
									name = callee.String()
								}
								good = false
								c.R.Fail(rule, Fn(f)+":request-list", c.Pos(ins), "the request list (or a slice sharing its storage) is handed to "+name+", which may reorder or edit it in place: the caller's entry i is no longer the entry verdict i was computed for", "the request list is read-only for the ruler", nil)
							}
						}
					}
				}
			}
		}
		listWritten(F, dataP, 0)
		// nor does the ruler edit what the entries point to: the request data objects (and the slices inside them) belong to the
		// caller, who may be iterating over them or may hand them to the rules again. A value is "of the request" when it is
		// reached from the list by element loads, field accesses, type assertions and slicing.
		seenD := map[*ssa.Function]bool{}
		var dataWritten func(G *ssa.Function, roots map[ssa.Value]bool, depth int)
		dataWritten = func(G *ssa.Function, roots map[ssa.Value]bool, depth int) {
			if depth > 3 || G.Blocks == nil {
				return
			}
			var ofRequest func(v ssa.Value, d int) bool
			ofRequest = func(v ssa.Value, d int) bool {
				if v == nil || d > 10 {
					return false
				}
				if roots[v] {
					return true
				}
				switch x := v.(type) {
				case *ssa.UnOp:
					if x.Op == token.MUL {
						if inner, ok := an.ResolveCell(x.X); ok {
							return ofRequest(inner, d+1)
						}
					}
					return ofRequest(x.X, d+1)
				case *ssa.FieldAddr:
					return ofRequest(x.X, d+1)
				case *ssa.Field:
					return ofRequest(x.X, d+1)
				case *ssa.IndexAddr:
					return ofRequest(x.X, d+1)
				case *ssa.Slice:
					return ofRequest(x.X, d+1)
				case *ssa.TypeAssert:
					return ofRequest(x.X, d+1)
				case *ssa.Extract:
					return ofRequest(x.Tuple, d+1)
				case *ssa.ChangeType:
					return ofRequest(x.X, d+1)
				case *ssa.MakeInterface:
					return ofRequest(x.X, d+1)
				case *ssa.FreeVar:
					if b := an.FreeVarBinding(x); b != nil {
						return ofRequest(b, d+1)
					}
				}
				return false
			}
			for _, f := range WithClosures(G) {
				for _, b := range f.Blocks {
					for _, ins := range b.Instrs {
						switch x := ins.(type) {
						case *ssa.Store:
							// a store into the request: a field of a data object, an element of one of its slices
							switch a := x.Addr.(type) {
							case *ssa.FieldAddr:
								if ofRequest(a.X, 0) {
									good = false
									c.R.Fail(rule, Fn(f)+":request-data", c.Pos(x), "the ruler assigns field "+fieldNameOf(a)+" of a request data object it was handed: the caller (who may be iterating over that very value) sees its request rewritten", "request data is read-only for the ruler", nil)
								}
							case *ssa.IndexAddr:
								if ofRequest(a.X, 0) && sliceRoot(a.X) != dataP {
									good = false
									c.R.Fail(rule, Fn(f)+":request-data", c.Pos(x), "the ruler writes into a list inside the request data it was handed", "request data is read-only for the ruler", nil)
								}
							}
						case ssa.CallInstruction:
							cc := x.Common()
							if _, isB := cc.Value.(*ssa.Builtin); isB {
								continue
							}
							callee := cc.StaticCallee()
							for k, a := range cc.Args {
								v := a
								if mi, ok := v.(*ssa.MakeInterface); ok {
									v = mi.X
								}
								if _, isSlice := v.Type().Underlying().(*types.Slice); !isSlice || !ofRequest(v, 0) || sliceRoot(v) == dataP {
									continue
								}
								if callee != nil && prog.InModule(callee) && !cc.IsInvoke() {
									if k < len(callee.Params) && !seenD[callee] {
										seenD[callee] = true
										dataWritten(callee, map[ssa.Value]bool{callee.Params[k]: true}, depth+1)
									}
									continue
								}
								if cc.IsInvoke() && namedIs(cc.Value.Type(), pkgRules, "Service") {
									continue
								}
								if callee != nil && strings.HasPrefix(callee.String(), "(*github.com/rs/zerolog.") {
									continue // logging reads
								}
								name := "a dynamic call"
								if callee != nil {
									name = callee.String()
								}
								good = false
								c.R.Fail(rule, Fn(f)+":request-data", c.Pos(ins), "a list inside the request data is handed to "+name+", which may reorder or edit it in place: the caller sees its request rewritten", "request data is read-only for the ruler", nil)
							}
						}
					}
				}
			}
		}
		dataWritten(F, map[ssa.Value]bool{dataP: true}, 0)
		var valid func(root ssa.Value, at ssa.Instruction) bool
		checked := map[ssa.Value]bool{}
		valid = func(root ssa.Value, at ssa.Instruction) bool {
			if v, done := checked[root]; done {
				return v
			}
			checked[root] = true
			okRoot := false
			switch x := root.(type) {
			case *ssa.MakeSlice:
				nlists++
				if !lenIs(x.Len, dataP) {
					c.R.Fail(rule, Fn(F), c.Pos(x), "the verdict list does not have one slot per request", "make([]Result, len(rulesData))", nil)
				} else {
					okRoot = storesOK(F, x, dataP, func(v ssa.Value) bool { return valid(v, at) })
				}
			case *ssa.Call:
				cc := x.Call
				if cc.IsInvoke() {
					// the batch rule on per-request lists filled by workers
					if !namedIs(cc.Value.Type(), pkgRules, "Service") {
						c.R.Unknown(rule, Fn(F), c.Pos(x), "the verdict list comes from a dynamic call that is not a rule")
						break
					}
					okRoot = true
					nlists++
					for _, a := range cc.Args {
						if _, isList := a.Type().(*types.Slice); !isList {
							continue
						}
						mk, isMk := sliceRootExact(a).(*ssa.MakeSlice)
						if !isMk || !lenIs(mk.Len, dataP) {
							okRoot = false
							c.R.Fail(rule, Fn(F), c.Pos(x), "a list given to the batch rule does not have one slot per request", "make(len(rulesData)) filled at the worker's own index", nil)
							continue
						}
						for _, f := range WithClosures(F) {
							wl, isWorker := scatterLoopIdx(f)
							for _, b := range f.Blocks {
								for _, ins := range b.Instrs {
									st, ok := ins.(*ssa.Store)
									if !ok {
										continue
									}
									ia, ok := st.Addr.(*ssa.IndexAddr)
									if !ok || sliceRootExact(ia.X) != ssa.Value(mk) {
										continue
									}
									if !isWorker || f == F || ia.Index != wl.Idx {
										okRoot = false
										c.R.Fail(rule, Fn(f), c.Pos(st), "an entry of a list given to the batch rule is written at a position other than the worker's own", "lists for the batch rule filled at [i] by the worker of position i", nil)
									}
								}
							}
						}
					}
					break
				}
				G := cc.StaticCallee()
				if G == nil || !prog.InModule(G) {
					c.R.Unknown(rule, Fn(F), c.Pos(x), "the verdict list comes from a call that cannot be followed")
					break
				}
				// a constructor: make([]Result, size) filled with refusing constants, called with len(rulesData)
				if k := listCtorSizeParam(G, approved); k >= 0 && k < len(cc.Args) {
					nlists++
					if !lenIs(cc.Args[k], dataP) {
						c.R.Fail(rule, Fn(F), c.Pos(x), "the verdict list does not have one slot per request", "newResults(len(rulesData))", nil)
					} else {
						okRoot = storesOK(F, x, dataP, func(v ssa.Value) bool { return valid(v, at) })
					}
					break
				}
				same := false
				for _, a := range cc.Args {
					if isDataList(a.Type()) {
						_, resliced := a.(*ssa.Slice)
						same = !resliced && sliceRootExact(a) == dataP
					}
				}
				if !same {
					c.R.Fail(rule, Fn(F), c.Pos(x), "the rules are evaluated over another list than the request's own (a copy, a reordering or a part of it), so positions of verdicts and requests need not agree", "helper(rulesData) with the very list received", nil)
					break
				}
				okRoot = stage(G, depth+1)
			case *ssa.Slice:
				// []Result{c}: constants only
				if al, ok := x.X.(*ssa.Alloc); ok {
					okRoot = true
					for _, rr := range *al.Referrers() {
						if ia, ok := rr.(*ssa.IndexAddr); ok {
							for _, r2 := range *ia.Referrers() {
								if st, ok := r2.(*ssa.Store); ok && st.Addr == ssa.Value(ia) {
									k, isConst := st.Val.(*ssa.Const)
									if !isConst || an.IsConstInt(k, approved) {
										okRoot = false
									}
								}
							}
						}
					}
					if !okRoot {
						c.R.Fail(rule, Fn(F), c.Pos(x), "a literal verdict list can approve", "literal lists hold refusals only", nil)
					}
				} else {
					c.R.Fail(rule, Fn(F), c.Pos(x), "a part of a verdict list is returned: positions shift", "the whole list", nil)
				}
			default:
				c.R.Unknown(rule, Fn(F), c.Pos(at), "origin of the verdict list not understood: "+an.Term(root))
			}
			checked[root] = okRoot
			return okRoot
		}
		for _, ret := range an.Returns(F) {
			v := an.Result(ret, k)
			if _, resliced := v.(*ssa.Slice); resliced {
				if _, isLit := v.(*ssa.Slice).X.(*ssa.Alloc); !isLit {
					good = false
					c.R.Fail(rule, Fn(F), c.Pos(ret), "a part of a verdict list is returned: positions shift", "the whole list", nil)
					continue
				}
				if !valid(v, ret) {
					good = false
				}
				continue
			}
			if !valid(sliceRootExact(v), ret) {
				good = false
			}
		}
		if good {
			c.R.OK(rule, Fn(F), c.P.FuncPos(F), "every verdict list returned has one slot per request, is written by workers at their own index or copied index-for-index, and helpers receive the very list of requests")
		}
		return good
	}
	stage(r.RunRules, 0)
	c.R.Floor(rule, "verdict lists followed from RunRules", nlists, 3)
}

// listCtorSizeParam recognises a helper that returns make([]T, size) for an integer parameter `size`, filled only with
// constants other than `approved`; it returns the parameter's position or -1.
func listCtorSizeParam(G *ssa.Function, approved int64) int {
	if G.Blocks == nil {
		return -1
	}
	rets := an.Returns(G)
	if len(rets) != 1 || len(rets[0].Results) != 1 {
		return -1
	}
	mk, ok := sliceRootExact(an.Result(rets[0], 0)).(*ssa.MakeSlice)
	if !ok {
		return -1
	}
	k := -1
	for i, p := range G.Params {
		if mk.Len == ssa.Value(p) {
			k = i
		}
	}
	if k < 0 {
		return -1
	}
	for _, f := range WithClosures(G) {
		for _, b := range f.Blocks {
			for _, ins := range b.Instrs {
				st, ok := ins.(*ssa.Store)
				if !ok {
					continue
				}
				ia, ok := st.Addr.(*ssa.IndexAddr)
				if !ok || sliceRootExact(ia.X) != ssa.Value(mk) {
					continue
				}
				cst, isConst := st.Val.(*ssa.Const)
				if !isConst || an.IsConstInt(cst, approved) {
					return -1
				}
			}
		}
	}
	return k
}
