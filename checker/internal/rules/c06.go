package rules

func init() {
	register(&Spec{
		ID: "C06",
		Run: func(c *Ctx) {
			c.SignIffApproved("C06", nil)
			c.SuccessNeedsEverything("C06")
			c.HandlerSignature("C06")
			c.AccountUnlockNeedsPassphrase("C06")
			c.SyncOption("C03")            // a store that cannot be read back makes the instance refuse to start: no option or "recovery" that drops records
			c.ReplyRequestScoped("C16")    // the state and signature the client reads are the ones this call wrote
			c.SigningRootProvenance("C06") // incl. C06.O5: a malformed root or domain fails the hash
			c.PreCheckRules("C06")
			c.RulerOrigins("C06")
			c.RulerPositions("C06") // a denial computed for one position is not handed to another one
			c.ScatterIndexDiscipline("C06")
			if s := c.Slashing("C06.anchors"); s.OK() {
				c.FetchHelperRules("C06", s, "att")
				c.FetchHelperRules("C06", s, "prop")
				c.BadgerBufferDiscipline("C11")
				c.StoreCommit("C03", s) // a write that fails is reported as a failure
				c.RecordBeforeApprove("C06", s, "att")
				c.RecordBeforeApprove("C06", s, "prop")
			}
		},
		Explanation: "Fail-closed structure: a signature is produced only where the rules verdict of the request's own position is APPROVED (value-set cut, closed enum), SUCCEEDED with a signature is reachable only past the nil-error edge of every call the signature depends on, signature and SUCCEEDED travel together through the service and the handlers, and fetch/decode/store errors map to FAILED. See DESIGN.md §5 C06.",
		Trusted:     append([]string{"dependencies return errors rather than panic", "protobuf getters are nil-safe"}, commonTrusted...),
	})
}
