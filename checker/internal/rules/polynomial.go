package rules

import (
	"fmt"
	"strings"

	"dirkcheck/internal/an"
	"dirkcheck/internal/prog"

	"golang.org/x/tools/go/ssa"
)

const pkgBLS = "github.com/herumi/bls-eth-go-binary/bls"

// PolynomialFresh (C12.O8 polynomial.coefficients-independent): "any t participants can sign, fewer cannot" rests on the
// secret polynomial each participant contributes having t independent, uniformly random coefficients: with two equal (or
// related) coefficients the group polynomial has fewer than t degrees of freedom and t-1 shares determine it. Contributions
// still verify and every check of the protocol still passes, so nothing at run time notices. Decided structurally, by the
// one idiom the code uses: the coefficient list handed to (*bls.SecretKey).Set (the share evaluation) is a list made in the
// same function (or the helper that returns it) and
//
//   - one full-range loop over it calls SetByCSPRNG on the element of its own index on every iteration, and
//   - nothing else writes a coefficient: elements are otherwise only assigned the zero value and read (GetPublicKey, IsZero,
//     Serialize ...); no other mutator of bls.SecretKey (Set*, Deserialize*, Add, Sub, Mul, Neg, Recover) is applied to them
//     and their addresses are handed to no other function.
//
// This accepts exactly that idiom: another sound way of drawing the coefficients is reported as not understood.
func (c *Ctx) PolynomialFresh(prop string) {
	rule := "C12.O8 polynomial.coefficients-independent"
	p := c.Proc(prop + ".anchors")
	if !p.OK() {
		return
	}
	pkg := p.Impl.Obj().Pkg().Path()
	isBLS := func(ci ssa.CallInstruction, names ...string) bool {
		f := ci.Common().StaticCallee()
		if f == nil || ci.Common().IsInvoke() || f.Pkg == nil || f.Pkg.Pkg.Path() != pkgBLS || f.Signature.Recv() == nil || !namedIs(derefT(f.Signature.Recv().Type()), pkgBLS, "SecretKey") {
			return false
		}
		if len(names) == 0 {
			return true
		}
		for _, n := range names {
			if f.Name() == n {
				return true
			}
		}
		return false
	}
	n := 0
	for _, fn := range c.P.ModuleFuncs() {
		if prog.PkgPathOf(fn) != pkg || fn.Blocks == nil || prog.IsTestish(pkg) {
			continue
		}
		for _, K := range Calls(fn, func(ci ssa.CallInstruction) bool { return isBLS(ci, "Set") && len(ci.Common().Args) == 3 }) {
			n++
			// the list: made here, or returned by a module helper
			lst := K.Common().Args[1]
			root := sliceRootExact(lst)
			G := fn
			for d := 0; d < 3; d++ {
				v := root
				if ex, ok := v.(*ssa.Extract); ok {
					v = ex.Tuple
				}
				call, ok := v.(*ssa.Call)
				if !ok {
					break
				}
				h := call.Call.StaticCallee()
				if h == nil || call.Call.IsInvoke() || !prog.InModule(h) || h.Blocks == nil {
					break
				}
				idx := 0
				if ex, ok := root.(*ssa.Extract); ok {
					idx = ex.Index
				}
				var r ssa.Value
				same := true
				for _, ret := range an.Returns(h) {
					if idx >= len(ret.Results) {
						same = false
						break
					}
					rv := sliceRootExact(an.Result(ret, idx))
					if k, isK := rv.(*ssa.Const); isK && k.Value == nil {
						continue // nil list on a failure return
					}
					if r != nil && r != rv {
						same = false
					}
					r = rv
				}
				if !same || r == nil {
					break
				}
				root, G = r, h
			}
			// the list is a parameter of a helper that evaluates the shares: the list its (single) caller hands over
			for d := 0; d < 3; d++ {
				q, isParam := root.(*ssa.Parameter)
				if !isParam || q.Parent() != G {
					break
				}
				idx := -1
				for i, qq := range G.Params {
					if qq == q {
						idx = i
					}
				}
				sites := c.staticCallers()[G]
				if idx < 0 || len(sites) != 1 || idx >= len(sites[0].Common().Args) {
					break
				}
				root, G = sliceRootExact(sites[0].Common().Args[idx]), sites[0].Parent()
				// ... which may itself come out of a helper
				v := root
				if ex, ok := v.(*ssa.Extract); ok {
					v = ex.Tuple
				}
				if call, ok := v.(*ssa.Call); ok {
					if h := call.Call.StaticCallee(); h != nil && !call.Call.IsInvoke() && prog.InModule(h) && h.Blocks != nil {
						ridx := 0
						if ex, ok := root.(*ssa.Extract); ok {
							ridx = ex.Index
						}
						var r ssa.Value
						same := true
						for _, ret := range an.Returns(h) {
							if ridx >= len(ret.Results) {
								same = false
								break
							}
							rv := sliceRootExact(an.Result(ret, ridx))
							if k, isK := rv.(*ssa.Const); isK && k.Value == nil {
								continue
							}
							if r != nil && r != rv {
								same = false
							}
							r = rv
						}
						if same && r != nil {
							root, G = r, h
						}
					}
				}
			}
			if why, pos, isAppend := appendFormPolynomial(c, root, isBLS); isAppend {
				if why != "" {
					c.R.Fail(rule, Fn(G), pos, why+": the coefficients of the secret polynomial are no longer t independent draws (fewer than t participants may then be able to sign)", "every appended coefficient: a variable drawn by its own SetByCSPRNG call in the same iteration", nil)
				} else {
					c.R.OK(rule, Fn(G), pos, "every coefficient appended to the list handed to the share evaluation is drawn by SetByCSPRNG in the iteration that appends it")
				}
				continue
			}
			ms, ok := root.(*ssa.MakeSlice)
			if !ok {
				c.R.Unknown(rule, Fn(fn), c.Pos(K), "the coefficient list handed to the share evaluation is not a list made here or in the helper that returns it: "+an.Term(lst))
				continue
			}
			// every use of an element
			bad := ""
			badPos := ""
			for _, b := range G.Blocks {
				for _, ins := range b.Instrs {
					ia, ok := ins.(*ssa.IndexAddr)
					if !ok || sliceRootExact(ia.X) != ssa.Value(ms) {
						continue
					}
					for _, r := range *ia.Referrers() {
						why := ""
						switch x := r.(type) {
						case *ssa.Store:
							if x.Addr == ssa.Value(ia) {
								if k, isK := x.Val.(*ssa.Const); !isK || k.Value != nil {
									why = "a coefficient is assigned " + an.Term(x.Val)
								}
							} else {
								why = "the address of a coefficient is stored"
							}
						case *ssa.UnOp, *ssa.DebugRef:
						case ssa.CallInstruction:
							if !isBLS(x) || len(x.Common().Args) == 0 || x.Common().Args[0] != ssa.Value(ia) {
								why = "a coefficient is handed to " + CalleeName(x)
								break
							}
							name := x.Common().StaticCallee().Name()
							mut := false
							for _, pre := range []string{"Set", "Deserialize", "Add", "Sub", "Mul", "Neg", "Inv", "Recover"} {
								if strings.HasPrefix(name, pre) {
									mut = true
								}
							}
							if mut && name != "SetByCSPRNG" {
								why = "a coefficient is written by " + name
							}
						default:
							why = "a coefficient's address is used in a way the analysis does not follow"
						}
						if why != "" && bad == "" {
							bad, badPos = why, c.Pos(r)
						}
					}
				}
			}
			if bad != "" {
				c.R.Fail(rule, Fn(G), badPos, bad+": the coefficients of the secret polynomial are no longer t independent draws (fewer than t participants may then be able to sign)", "every coefficient: the zero value, then SetByCSPRNG, then only read", nil)
				continue
			}
			// the filling loop
			found := false
			for _, l := range FindLoops(G) {
				if !l.FullRange || !(l.BoundLen == ssa.Value(ms) || stripConvert(l.Bound) == stripConvert(ms.Len)) {
					continue
				}
				fill := func(i ssa.Instruction) bool {
					ci, ok := i.(*ssa.Call)
					if !ok || !isBLS(ci, "SetByCSPRNG") {
						return false
					}
					ia, ok := ci.Call.Args[0].(*ssa.IndexAddr)
					return ok && sliceRootExact(ia.X) == ssa.Value(ms) && ia.Index == l.Idx
				}
				any := false
				for b := range l.Body {
					for _, i := range b.Instrs {
						if fill(i) {
							any = true
						}
					}
				}
				if any && !l.IterationSkips(fill) {
					found = true
				}
			}
			// (the rotated form go/ssa emits for `for i := range n`)
			for _, l := range FindRotLoops(G) {
				if stripConvert(l.Bound) != stripConvert(ms.Len) {
					continue
				}
				fill := func(i ssa.Instruction) bool {
					ci, ok := i.(*ssa.Call)
					if !ok || !isBLS(ci, "SetByCSPRNG") {
						return false
					}
					ia, ok := ci.Call.Args[0].(*ssa.IndexAddr)
					return ok && sliceRootExact(ia.X) == ssa.Value(ms) && stripConvert(ia.Index) == ssa.Value(l.Idx)
				}
				latchIf := l.Latch.Instrs[len(l.Latch.Instrs)-1]
				if x, _ := an.Cut(an.CutQuery{From: an.Point{Block: l.Head, Idx: 0}, Target: func(i ssa.Instruction) bool { return i == latchIf }, AcceptInstr: fill}); x == nil {
					found = true
				}
			}
			if !found {
				c.R.Fail(rule, Fn(G), c.Pos(ms), "no full-range loop over the coefficient list draws every coefficient with SetByCSPRNG on each iteration", "for i over the list: list[i].SetByCSPRNG()", nil)
				continue
			}
			c.R.OK(rule, Fn(G), c.Pos(ms), "every coefficient of the list handed to the share evaluation is drawn by its own SetByCSPRNG call and only read afterwards")
		}
	}
	c.R.Floor(rule, "share evaluations (SecretKey.Set over a coefficient list) in the process service", n, 1)
	_ = fmt.Sprint
}

// appendFormPolynomial: the list is built as `l := make([]T, 0, n); for … { var c T; c.SetByCSPRNG(); l = append(l, c) }`.
// isAppend is false when the value is not of that family at all; otherwise why is "" (accepted) or the reason.
func appendFormPolynomial(c *Ctx, lst ssa.Value, isBLS func(ssa.CallInstruction, ...string) bool) (why string, pos string, isAppend bool) {
	// the values of the list variable: through phis and the first argument of appends
	vals := map[ssa.Value]bool{}
	var mk *ssa.MakeSlice
	var apps []*ssa.Call
	bad := ""
	var walk func(v ssa.Value, d int)
	walk = func(v ssa.Value, d int) {
		if vals[v] || d > 12 {
			return
		}
		vals[v] = true
		switch x := v.(type) {
		case *ssa.Phi:
			for _, e := range x.Edges {
				walk(e, d+1)
			}
		case *ssa.MakeSlice:
			if mk != nil && mk != x {
				bad = "the list starts from more than one make"
			}
			mk = x
		case *ssa.Call:
			if isBuiltin(x, "append") {
				apps = append(apps, x)
				walk(x.Call.Args[0], d+1)
				return
			}
			bad = "the list is the result of " + CalleeName(x)
		case *ssa.Slice:
			walk(x.X, d+1)
		default:
			bad = "the list is built from " + an.Term(v)
		}
	}
	if _, isPhi := lst.(*ssa.Phi); !isPhi {
		if call, isCall := lst.(*ssa.Call); !isCall || !isBuiltin(call, "append") {
			return "", "", false
		}
	}
	walk(lst, 0)
	if len(apps) == 0 {
		return "", "", false
	}
	pos = c.Pos(apps[0])
	if bad != "" {
		return bad, pos, true
	}
	if mk == nil || !an.IsConstInt(mk.Len, 0) {
		return "the list does not start empty", pos, true
	}
	if len(apps) != 1 {
		return "the list is appended to in more than one place", pos, true
	}
	app := apps[0]
	// nothing overwrites an element
	for v := range vals {
		if v.Referrers() == nil {
			continue
		}
		for _, r := range *v.Referrers() {
			if ia, ok := r.(*ssa.IndexAddr); ok {
				for _, r2 := range *ia.Referrers() {
					if st, ok := r2.(*ssa.Store); ok && st.Addr == ssa.Value(ia) {
						return "an element of the list is overwritten", c.Pos(st), true
					}
					if ci, ok := r2.(ssa.CallInstruction); ok {
						if !isBLS(ci, "GetPublicKey", "IsZero", "IsEqual", "Serialize", "SerializeToHexStr", "GetHexString", "GetLittleEndian") {
							return "an element of the list is handed to " + CalleeName(ci), c.Pos(r2), true
						}
					}
				}
			}
		}
	}
	elems := varargValuesT(app.Call.Args[1])
	if len(elems) != 1 {
		return "more than one value is appended at a time", pos, true
	}
	ld, ok := elems[0].(*ssa.UnOp)
	if !ok {
		return "the appended coefficient is not a variable of the iteration: " + an.Term(elems[0]), pos, true
	}
	cell, ok := ld.X.(*ssa.Alloc)
	if !ok {
		return "the appended coefficient is not a variable of the iteration: " + an.Term(elems[0]), pos, true
	}
	var draw ssa.Instruction
	for _, r := range *cell.Referrers() {
		switch x := r.(type) {
		case *ssa.UnOp, *ssa.DebugRef:
		case *ssa.Store:
			if x.Addr != ssa.Value(cell) {
				return "the address of the coefficient variable is stored", c.Pos(r), true
			}
			if k, isK := x.Val.(*ssa.Const); !isK || k.Value != nil {
				return "the coefficient variable is assigned " + an.Term(x.Val), c.Pos(r), true
			}
		case ssa.CallInstruction:
			if !isBLS(x) || len(x.Common().Args) == 0 || x.Common().Args[0] != ssa.Value(cell) {
				return "the coefficient variable is handed to " + CalleeName(x), c.Pos(r), true
			}
			name := x.Common().StaticCallee().Name()
			if name == "SetByCSPRNG" {
				if draw != nil {
					return "the coefficient variable is drawn in more than one place", c.Pos(r), true
				}
				draw = r
				continue
			}
			for _, pre := range []string{"Set", "Deserialize", "Add", "Sub", "Mul", "Neg", "Inv", "Recover"} {
				if strings.HasPrefix(name, pre) {
					return "the coefficient variable is written by " + name, c.Pos(r), true
				}
			}
		default:
			return "the coefficient variable is used in a way the analysis does not follow", c.Pos(r), true
		}
	}
	if draw == nil {
		return "the appended coefficient is never drawn with SetByCSPRNG", pos, true
	}
	// the draw precedes the append on every path from the function's entry, and again between two appends
	isDraw := func(i ssa.Instruction) bool { return i == draw }
	target := ssa.Instruction(app)
	if x, _ := an.Cut(an.CutQuery{From: an.Entry(app.Parent()), Target: func(i ssa.Instruction) bool { return i == target }, AcceptInstr: isDraw}); x != nil {
		return "a coefficient can be appended before it was drawn", pos, true
	}
	if x, _ := an.Cut(an.CutQuery{From: an.After(app), Target: func(i ssa.Instruction) bool { return i == target }, AcceptInstr: isDraw}); x != nil {
		return "two iterations can append the same draw", pos, true
	}
	return "", pos, true
}
