package rules

import (
	"fmt"
	"strings"

	"dirkcheck/internal/an"
	"dirkcheck/internal/prog"

	"golang.org/x/tools/go/ssa"
)

const pkgBLS = "github.com/herumi/bls-eth-go-binary/bls"

// PolynomialFresh (C12.O8 polynomial.coefficients-independent): "any t participants can sign, fewer cannot" rests on the
// secret polynomial each participant contributes having t independent, uniformly random coefficients: with two equal (or
// related) coefficients the group polynomial has fewer than t degrees of freedom and t-1 shares determine it. Contributions
// still verify and every check of the protocol still passes, so nothing at run time notices. Decided structurally, by the
// one idiom the code uses: the coefficient list handed to (*bls.SecretKey).Set (the share evaluation) is a list made in the
// same function (or the helper that returns it) and
//
//   - one full-range loop over it calls SetByCSPRNG on the element of its own index on every iteration, and
//   - nothing else writes a coefficient: elements are otherwise only assigned the zero value and read (GetPublicKey, IsZero,
//     Serialize ...); no other mutator of bls.SecretKey (Set*, Deserialize*, Add, Sub, Mul, Neg, Recover) is applied to them
//     and their addresses are handed to no other function.
//
// This accepts exactly that idiom: another sound way of drawing the coefficients is reported as not understood.
func (c *Ctx) PolynomialFresh(prop string) {
	rule := "C12.O8 polynomial.coefficients-independent"
	p := c.Proc(prop + ".anchors")
	if !p.OK() {
		return
	}
	pkg := p.Impl.Obj().Pkg().Path()
	isBLS := func(ci ssa.CallInstruction, names ...string) bool {
		f := ci.Common().StaticCallee()
		if f == nil || ci.Common().IsInvoke() || f.Pkg == nil || f.Pkg.Pkg.Path() != pkgBLS || f.Signature.Recv() == nil || !namedIs(derefT(f.Signature.Recv().Type()), pkgBLS, "SecretKey") {
			return false
		}
		if len(names) == 0 {
			return true
		}
		for _, n := range names {
			if f.Name() == n {
				return true
			}
		}
		return false
	}
	n := 0
	for _, fn := range c.P.ModuleFuncs() {
		if prog.PkgPathOf(fn) != pkg || fn.Blocks == nil || prog.IsTestish(pkg) {
			continue
		}
		for _, K := range Calls(fn, func(ci ssa.CallInstruction) bool { return isBLS(ci, "Set") && len(ci.Common().Args) == 3 }) {
			n++
			// the list: made here, or returned by a module helper
			lst := K.Common().Args[1]
			root := sliceRootExact(lst)
			G := fn
			for d := 0; d < 3; d++ {
				v := root
				if ex, ok := v.(*ssa.Extract); ok {
					v = ex.Tuple
				}
				call, ok := v.(*ssa.Call)
				if !ok {
					break
				}
				h := call.Call.StaticCallee()
				if h == nil || call.Call.IsInvoke() || !prog.InModule(h) || h.Blocks == nil {
					break
				}
				idx := 0
				if ex, ok := root.(*ssa.Extract); ok {
					idx = ex.Index
				}
				var r ssa.Value
				same := true
				for _, ret := range an.Returns(h) {
					if idx >= len(ret.Results) {
						same = false
						break
					}
					rv := sliceRootExact(an.Result(ret, idx))
					if k, isK := rv.(*ssa.Const); isK && k.Value == nil {
						continue // nil list on a failure return
					}
					if r != nil && r != rv {
						same = false
					}
					r = rv
				}
				if !same || r == nil {
					break
				}
				root, G = r, h
			}
			ms, ok := root.(*ssa.MakeSlice)
			if !ok {
				c.R.Unknown(rule, Fn(fn), c.Pos(K), "the coefficient list handed to the share evaluation is not a list made here or in the helper that returns it: "+an.Term(lst))
				continue
			}
			// every use of an element
			bad := ""
			badPos := ""
			for _, b := range G.Blocks {
				for _, ins := range b.Instrs {
					ia, ok := ins.(*ssa.IndexAddr)
					if !ok || sliceRootExact(ia.X) != ssa.Value(ms) {
						continue
					}
					for _, r := range *ia.Referrers() {
						why := ""
						switch x := r.(type) {
						case *ssa.Store:
							if x.Addr == ssa.Value(ia) {
								if k, isK := x.Val.(*ssa.Const); !isK || k.Value != nil {
									why = "a coefficient is assigned " + an.Term(x.Val)
								}
							} else {
								why = "the address of a coefficient is stored"
							}
						case *ssa.UnOp, *ssa.DebugRef:
						case ssa.CallInstruction:
							if !isBLS(x) || len(x.Common().Args) == 0 || x.Common().Args[0] != ssa.Value(ia) {
								why = "a coefficient is handed to " + CalleeName(x)
								break
							}
							name := x.Common().StaticCallee().Name()
							mut := false
							for _, pre := range []string{"Set", "Deserialize", "Add", "Sub", "Mul", "Neg", "Inv", "Recover"} {
								if strings.HasPrefix(name, pre) {
									mut = true
								}
							}
							if mut && name != "SetByCSPRNG" {
								why = "a coefficient is written by " + name
							}
						default:
							why = "a coefficient's address is used in a way the analysis does not follow"
						}
						if why != "" && bad == "" {
							bad, badPos = why, c.Pos(r)
						}
					}
				}
			}
			if bad != "" {
				c.R.Fail(rule, Fn(G), badPos, bad+": the coefficients of the secret polynomial are no longer t independent draws (fewer than t participants may then be able to sign)", "every coefficient: the zero value, then SetByCSPRNG, then only read", nil)
				continue
			}
			// the filling loop
			found := false
			for _, l := range FindLoops(G) {
				if !l.FullRange || !(l.BoundLen == ssa.Value(ms) || stripConvert(l.Bound) == stripConvert(ms.Len)) {
					continue
				}
				fill := func(i ssa.Instruction) bool {
					ci, ok := i.(*ssa.Call)
					if !ok || !isBLS(ci, "SetByCSPRNG") {
						return false
					}
					ia, ok := ci.Call.Args[0].(*ssa.IndexAddr)
					return ok && sliceRootExact(ia.X) == ssa.Value(ms) && ia.Index == l.Idx
				}
				any := false
				for b := range l.Body {
					for _, i := range b.Instrs {
						if fill(i) {
							any = true
						}
					}
				}
				if any && !l.IterationSkips(fill) {
					found = true
				}
			}
			// (the rotated form go/ssa emits for `for i := range n`)
			for _, l := range FindRotLoops(G) {
				if stripConvert(l.Bound) != stripConvert(ms.Len) {
					continue
				}
				fill := func(i ssa.Instruction) bool {
					ci, ok := i.(*ssa.Call)
					if !ok || !isBLS(ci, "SetByCSPRNG") {
						return false
					}
					ia, ok := ci.Call.Args[0].(*ssa.IndexAddr)
					return ok && sliceRootExact(ia.X) == ssa.Value(ms) && stripConvert(ia.Index) == ssa.Value(l.Idx)
				}
				latchIf := l.Latch.Instrs[len(l.Latch.Instrs)-1]
				if x, _ := an.Cut(an.CutQuery{From: an.Point{Block: l.Head, Idx: 0}, Target: func(i ssa.Instruction) bool { return i == latchIf }, AcceptInstr: fill}); x == nil {
					found = true
				}
			}
			if !found {
				c.R.Fail(rule, Fn(G), c.Pos(ms), "no full-range loop over the coefficient list draws every coefficient with SetByCSPRNG on each iteration", "for i over the list: list[i].SetByCSPRNG()", nil)
				continue
			}
			c.R.OK(rule, Fn(G), c.Pos(ms), "every coefficient of the list handed to the share evaluation is drawn by its own SetByCSPRNG call and only read afterwards")
		}
	}
	c.R.Floor(rule, "share evaluations (SecretKey.Set over a coefficient list) in the process service", n, 1)
	_ = fmt.Sprint
}
