package rules

import (
	"fmt"
	"go/types"
	"strings"

	"dirkcheck/internal/an"
	"dirkcheck/internal/prog"

	"golang.org/x/tools/go/ssa"
)

// MetricLabelArity (C20.O9 metrics.label-arity): a prometheus vector panics ("inconsistent label cardinality") when
// WithLabelValues is given another number of values than the vector was declared with. The monitors are called on every exit
// path of the request handlers' services, and no recovery interceptor is installed: the process dies on the first request
// once a metrics address is configured. For every field of a module struct, and every package variable, that holds a *prometheus.{Counter,Gauge,
// Histogram,Summary}Vec: every New…Vec stored into it is declared with one and the same number of label names (a slice
// literal), and every WithLabelValues on a load of the field passes exactly that many values.
func (c *Ctx) MetricLabelArity(prop string) {
	rule := "C20.O9 metrics.label-arity"
	const prom = "github.com/prometheus/client_golang/prometheus"
	isVec := func(t types.Type) bool {
		p, ok := t.(*types.Pointer)
		if !ok {
			return false
		}
		n, ok := p.Elem().(*types.Named)
		return ok && n.Obj().Pkg() != nil && n.Obj().Pkg().Path() == prom && strings.HasSuffix(n.Obj().Name(), "Vec")
	}
	fieldKey := func(fa *ssa.FieldAddr) string {
		n := namedOf(fa.X.Type())
		if n == nil {
			return ""
		}
		return n.Obj().Pkg().Path() + "." + n.Obj().Name() + "." + fieldNameOf(fa)
	}
	// the length of a slice literal / varargs pack: a slice of a local array
	packLen := func(v ssa.Value) (int64, bool) {
		if k, ok := v.(*ssa.Const); ok && k.Value == nil {
			return 0, true
		}
		sl, ok := v.(*ssa.Slice)
		if !ok {
			return 0, false
		}
		al, ok := sl.X.(*ssa.Alloc)
		if !ok || sl.Low != nil || sl.High != nil {
			return 0, false
		}
		arr, ok := derefT(al.Type()).Underlying().(*types.Array)
		if !ok {
			return 0, false
		}
		return arr.Len(), true
	}
	declared := map[string]map[int64]bool{}
	declPos := map[string]string{}
	type use struct {
		key string
		n   int64
		ok  bool
		ins ssa.Instruction
	}
	var uses []use
	for _, fn := range c.P.ModuleFuncs() {
		if prog.IsTestish(prog.PkgPathOf(fn)) || fn.Blocks == nil {
			continue
		}
		for _, b := range fn.Blocks {
			for _, ins := range b.Instrs {
				switch x := ins.(type) {
				case *ssa.Store:
					if !isVec(x.Val.Type()) {
						continue
					}
					key := ""
					switch a := x.Addr.(type) {
					case *ssa.FieldAddr:
						key = fieldKey(a)
					case *ssa.Global:
						key = a.String()
					}
					if key == "" {
						continue
					}
					if declared[key] == nil {
						declared[key] = map[int64]bool{}
						declPos[key] = c.Pos(x)
					}
					call, ok := x.Val.(*ssa.Call)
					if !ok || call.Call.StaticCallee() == nil || !strings.HasPrefix(call.Call.StaticCallee().Name(), "New") || len(call.Call.Args) < 2 {
						declared[key][-1] = true
						continue
					}
					if n, ok := packLen(call.Call.Args[len(call.Call.Args)-1]); ok {
						declared[key][n] = true
					} else {
						declared[key][-1] = true
					}
				case *ssa.Call:
					f := x.Call.StaticCallee()
					if f == nil || f.Name() != "WithLabelValues" || f.Pkg == nil || f.Pkg.Pkg.Path() != prom || len(x.Call.Args) < 2 {
						continue
					}
					ld, ok := x.Call.Args[0].(*ssa.UnOp)
					if !ok {
						uses = append(uses, use{"", 0, false, x})
						continue
					}
					key := ""
					switch a := ld.X.(type) {
					case *ssa.FieldAddr:
						key = fieldKey(a)
					case *ssa.Global:
						key = a.String()
					}
					n, okn := packLen(x.Call.Args[1])
					uses = append(uses, use{key, n, okn, x})
				}
			}
		}
	}
	for _, u := range uses {
		short := u.key[strings.LastIndex(u.key, "/")+1:]
		construct := Fn(u.ins.Parent()) + ":" + short
		if u.key == "" || !u.ok {
			c.R.Unknown(rule, construct, c.Pos(u.ins), "WithLabelValues on something other than a vector field, or with a value list the analysis cannot count")
			continue
		}
		d := declared[u.key]
		if len(d) != 1 || d[-1] {
			c.R.Unknown(rule, construct, c.Pos(u.ins), "the vector in "+short+" is not declared in exactly one way with a literal list of label names")
			continue
		}
		var want int64
		for k := range d {
			want = k
		}
		if want != u.n {
			c.R.Fail(rule, construct, c.Pos(u.ins), fmt.Sprintf("WithLabelValues is given %d values, the vector in %s is declared (at %s) with %d label names: prometheus panics, in the goroutine serving the request", u.n, short, declPos[u.key], want), "as many values as label names", nil)
		} else {
			c.R.OK(rule, construct, c.Pos(u.ins), fmt.Sprintf("%d values for %d declared label names", u.n, want))
		}
	}
	c.R.Floor(rule, "WithLabelValues calls on metric vectors", len(uses), 5)
	_ = an.Term
}
