package rules

import (
	"fmt"
	"go/token"
	"go/types"
	"sort"
	"strings"

	"dirkcheck/internal/an"
	"dirkcheck/internal/prog"

	"golang.org/x/tools/go/ssa"
)

const (
	pkgSigner  = mod + "/services/signer"
	pkgWTypes  = "github.com/wealdtech/go-eth2-wallet-types/v2"
	pkgChecker = mod + "/services/checker"
)

// SignSite is one place in an endpoint (or a scatter closure of it) where a signature is produced.
type SignSite struct {
	Endpoint *ssa.Function       // the service method
	Fn       *ssa.Function       // function containing the call (endpoint or closure)
	Call     ssa.CallInstruction // call to the signing helper (or the Sign invoke itself)
	Batch    bool
	Idx      ssa.Value // loop index for batch sites
}

// Signer gathers anchors of the signer service.
type Signer struct {
	Impl      *types.Named
	Endpoints map[string]*ssa.Function
	SignFns   map[*ssa.Function]bool // helpers that invoke AccountSigner.Sign (e.g. signRoot)
	Sites     []*SignSite
	RunRules  map[*ssa.Function]ssa.CallInstruction // endpoint -> its RunRules invoke
	PreCheck  *ssa.Function
	Wrapper   map[*ssa.Function]*ssa.Function // core endpoint -> exported wrapper (when the endpoint is a thin wrapper)
	Phase     map[*ssa.Function]*ssa.Call     // endpoint -> its call of a package helper that runs the pre-checks (nil: the endpoint runs them itself)
	ok        bool
}

// Unit returns the endpoint, its closures and, when the pre-checks are run by a package helper, that helper and its closures.
func (s *Signer) Unit(E *ssa.Function) []*ssa.Function {
	out := WithClosures(E)
	if hc := s.Phase[E]; hc != nil {
		out = append(out, WithClosures(hc.Call.StaticCallee())...)
	}
	return out
}

// InEndpoint maps a value of the unit to the endpoint's frame: values of the pre-check helper that are (captured)
// parameters become the arguments the endpoint passes; values of the endpoint and its closures stay.
func (s *Signer) InEndpoint(E *ssa.Function, v ssa.Value) ssa.Value {
	hc := s.Phase[E]
	if hc == nil {
		return v
	}
	H := hc.Call.StaticCallee()
	r := v
	if u, ok := r.(*ssa.UnOp); ok && u.Op == token.MUL {
		if inner, ok := an.ResolveCell(u.X); ok {
			r = inner
		} else if fa, isFA := u.X.(*ssa.FieldAddr); isFA {
			// a field of a request descriptor the endpoint built for the helper: `req.action` with req a parameter of the helper
			// and the argument a struct literal of the endpoint whose field is assigned exactly once (and never by the helper)
			base := fa.X
			if bu, ok := base.(*ssa.UnOp); ok && bu.Op == token.MUL {
				if inner, ok := an.ResolveCell(bu.X); ok {
					base = inner
				}
			}
			if fv, ok := base.(*ssa.FreeVar); ok {
				if b := an.FreeVarBinding(fv); b != nil {
					base = b
				}
			}
			if p, ok := base.(*ssa.Parameter); ok && p.Parent() == H {
				for k, q := range H.Params {
					if q != p || k >= len(hc.Call.Args) {
						continue
					}
					lit, isAlloc := hc.Call.Args[k].(*ssa.Alloc)
					if !isAlloc {
						continue
					}
					var val ssa.Value
					n := 0
					for _, ref := range *lit.Referrers() {
						fa2, ok := ref.(*ssa.FieldAddr)
						if !ok || fa2.Field != fa.Field {
							continue
						}
						for _, r2 := range *fa2.Referrers() {
							if st, ok := r2.(*ssa.Store); ok && st.Addr == ssa.Value(fa2) {
								val = st.Val
								n++
							}
						}
					}
					helperWrites := false
					for _, hf := range WithClosures(H) {
						for _, b := range hf.Blocks {
							for _, ins := range b.Instrs {
								if st, ok := ins.(*ssa.Store); ok {
									if fa3, ok := st.Addr.(*ssa.FieldAddr); ok && fa3.Field == fa.Field && types.Identical(fa3.X.Type(), fa.X.Type()) {
										helperWrites = true
									}
								}
							}
						}
					}
					if n == 1 && !helperWrites {
						return val
					}
				}
			}
		}
	}
	if p, ok := r.(*ssa.Parameter); ok && p.Parent() == H {
		for k, q := range H.Params {
			if q == p && k < len(hc.Call.Args) {
				return hc.Call.Args[k]
			}
		}
	}
	return v
}

// ListOrigin follows a list of the endpoint that is a result of the pre-check helper to the freshly made list the helper returns.
func (s *Signer) ListOrigin(E *ssa.Function, root ssa.Value) ssa.Value {
	hc := s.Phase[E]
	ex, ok := root.(*ssa.Extract)
	if hc == nil || !ok || ex.Tuple != ssa.Value(hc) {
		return root
	}
	var mk ssa.Value
	for _, ret := range an.Returns(hc.Call.StaticCallee()) {
		r, ok := sliceRootExact(an.Result(ret, ex.Index)).(*ssa.MakeSlice)
		if !ok || (mk != nil && mk != ssa.Value(r)) {
			return root
		}
		mk = r
	}
	if mk == nil {
		return root
	}
	return mk
}

// forwardingCore: f calls exactly one function of its package that (with its closures) runs the rules, passes it only its own
// parameters (plus values it made itself that are not of the request: loggers, times), and every return after that call hands
// back the call's results position by position; returns before it carry no signature. Returns that function, or nil.
func forwardingCore(f *ssa.Function, pkgPath string) *ssa.Function {
	var call *ssa.Call
	for _, b := range f.Blocks {
		for _, ins := range b.Instrs {
			c, ok := ins.(*ssa.Call)
			if !ok || c.Call.IsInvoke() {
				continue
			}
			g := c.Call.StaticCallee()
			if g == nil || g.Blocks == nil || prog.PkgPathOf(g) != pkgPath {
				continue
			}
			runs := false
			for _, h := range WithClosures(g) {
				if len(Calls(h, func(ci ssa.CallInstruction) bool { return IsInvokeOf(ci, pkgRuler, "Service", "RunRules") })) > 0 {
					runs = true
				}
			}
			if !runs {
				continue
			}
			if call != nil {
				return nil
			}
			call = c
		}
	}
	if call == nil {
		return nil
	}
	g := call.Call.StaticCallee()
	// the request's parameters are handed on unchanged: every parameter of f other than the context reaches g as itself
	for _, p := range f.Params {
		if an.TypeStr(p.Type()) == "context.Context" {
			continue
		}
		passed := false
		for _, a := range call.Call.Args {
			if a == ssa.Value(p) {
				passed = true
			}
		}
		if !passed {
			return nil
		}
	}
	nres := g.Signature.Results().Len()
	if nres != f.Signature.Results().Len() {
		return nil
	}
	for _, ret := range an.Returns(f) {
		if an.Reachable(an.After(call), ret) {
			for i := 0; i < nres; i++ {
				var want ssa.Value
				if nres == 1 {
					want = call
				} else {
					ex, ok := an.Result(ret, i).(*ssa.Extract)
					if !ok || ex.Tuple != ssa.Value(call) || ex.Index != i {
						return nil
					}
					continue
				}
				if an.Result(ret, i) != want {
					return nil
				}
			}
			continue
		}
		// before the call: no signature / list leaves (second result nil)
		if nres >= 2 && !isNilConst(an.Result(ret, 1)) {
			return nil
		}
	}
	return g
}

var signerEndpoints = []string{"SignGeneric", "SignBeaconProposal", "SignBeaconAttestation", "SignBeaconAttestations", "Multisign"}

func (c *Ctx) Signer(rule string) *Signer {
	if s, ok := c.memo["signer"].(*Signer); ok {
		return s
	}
	s := &Signer{Endpoints: map[string]*ssa.Function{}, SignFns: map[*ssa.Function]bool{}, RunRules: map[*ssa.Function]ssa.CallInstruction{}, Phase: map[*ssa.Function]*ssa.Call{}}
	c.memo["signer"] = s
	s.Impl = c.Role(rule, pkgSigner, "Service")
	if s.Impl == nil {
		return s
	}
	for _, n := range signerEndpoints {
		f := c.Method(rule, s.Impl, n)
		if f == nil {
			return s
		}
		s.Endpoints[n] = f
	}
	pkgPath := s.Impl.Obj().Pkg().Path()
	// an endpoint that is a thin wrapper (span, timing, one monitor call) around an unexported core function: the core is the
	// endpoint the rules speak about, provided the wrapper hands its own parameters on and returns exactly the core's results
	for _, n := range signerEndpoints {
		f := s.Endpoints[n]
		hasRun := false
		for _, g := range WithClosures(f) {
			if len(Calls(g, func(ci ssa.CallInstruction) bool { return IsInvokeOf(ci, pkgRuler, "Service", "RunRules") })) > 0 {
				hasRun = true
			}
		}
		if hasRun {
			continue
		}
		if core := forwardingCore(f, pkgPath); core != nil {
			s.Endpoints[n] = core
			if s.Wrapper == nil {
				s.Wrapper = map[*ssa.Function]*ssa.Function{}
			}
			s.Wrapper[core] = f
		}
	}
	// functions invoking AccountSigner.Sign
	for _, fn := range c.P.ModuleFuncs() {
		if prog.PkgPathOf(fn) != pkgPath {
			continue
		}
		for range Calls(fn, func(ci ssa.CallInstruction) bool { return IsInvokeOf(ci, pkgWTypes, "AccountSigner", "Sign") }) {
			s.SignFns[fn] = true
		}
	}
	if len(s.SignFns) == 0 {
		c.R.Anchor(rule, "sign-helper", "no invoke of AccountSigner.Sign found in the signer package")
		return s
	}
	for _, n := range signerEndpoints {
		E := s.Endpoints[n]
		for _, f := range WithClosures(E) {
			for _, ci := range Calls(f, func(ci ssa.CallInstruction) bool {
				return s.SignFns[ci.Common().StaticCallee()] || IsInvokeOf(ci, pkgWTypes, "AccountSigner", "Sign")
			}) {
				s.Sites = append(s.Sites, &SignSite{Endpoint: E, Fn: f, Call: ci, Batch: f != E})
			}
			for _, ci := range Calls(f, func(ci ssa.CallInstruction) bool { return IsInvokeOf(ci, pkgRuler, "Service", "RunRules") }) {
				if prev, dup := s.RunRules[E]; dup && prev != ci {
					c.R.Anchor(rule, "runrules:"+Fn(E), "more than one RunRules call in an endpoint")
					return s
				}
				s.RunRules[E] = ci
			}
		}
		if s.RunRules[E] == nil {
			c.R.Anchor(rule, "runrules:"+Fn(E), "endpoint does not call RunRules")
			return s
		}
	}
	// preCheck: the module function returning (Wallet, Account, core.Result) called by every endpoint
	cnt := map[*ssa.Function]int{}
	isPC := func(ci ssa.CallInstruction) bool {
		cal := ci.Common().StaticCallee()
		if cal == nil || !prog.InModule(cal) {
			return false
		}
		res := cal.Signature.Results()
		return res.Len() == 3 && namedIs(res.At(2).Type(), pkgCore, "Result")
	}
	for _, n := range signerEndpoints {
		E := s.Endpoints[n]
		seen := map[*ssa.Function]bool{}
		for _, f := range WithClosures(E) {
			for _, ci := range Calls(f, isPC) {
				seen[ci.Common().StaticCallee()] = true
			}
		}
		if len(seen) == 0 {
			// the pre-check may be run by a package helper of the endpoint (one level)
			for _, ci := range Calls(E, func(ci ssa.CallInstruction) bool {
				h := ci.Common().StaticCallee()
				return h != nil && h.Blocks != nil && prog.PkgPathOf(h) == pkgPath && !ci.Common().IsInvoke()
			}) {
				for _, f := range WithClosures(ci.Common().StaticCallee()) {
					for _, c2 := range Calls(f, isPC) {
						seen[c2.Common().StaticCallee()] = true
						if call, ok := ci.(*ssa.Call); ok {
							s.Phase[E] = call
						}
					}
				}
			}
		}
		for f := range seen {
			cnt[f]++
		}
	}
	for f, n := range cnt {
		if n >= len(signerEndpoints) {
			s.PreCheck = f
		}
	}
	if s.PreCheck == nil {
		c.R.Anchor(rule, "precheck", "no common pre-check helper (wallet, account, core.Result) found in the signer endpoints")
		return s
	}
	s.ok = true
	return s
}

// NameOf is the name of the service method an endpoint function implements (its own name, or its wrapper's).
func (s *Signer) NameOf(E *ssa.Function) string {
	for n, f := range s.Endpoints {
		if f == E {
			return n
		}
	}
	return E.Name()
}

func (s *Signer) OK() bool { return s != nil && s.ok }

// verdictLoad reports whether v is a load of <RunRules result>[idx]; returns idx.
func verdictLoad(v ssa.Value, run ssa.CallInstruction) (ssa.Value, bool) {
	u, ok := v.(*ssa.UnOp)
	if !ok || u.Op != token.MUL {
		return nil, false
	}
	ia, ok := u.X.(*ssa.IndexAddr)
	if !ok {
		return nil, false
	}
	if sliceRootExact(ia.X) != run.Value() {
		return nil, false
	}
	return ia.Index, true
}

// scatterLoopIdx returns the induction variable of the worker loop `for i := offset; i < offset+entries; i++` of closure fn.
func scatterLoopIdx(fn *ssa.Function) (*Loop, bool) {
	if len(fn.Params) < 2 {
		return nil, false
	}
	for _, l := range FindLoops(fn) {
		phi := l.Phi
		if phi == nil || l.Idx != ssa.Value(phi) {
			continue
		}
		var init ssa.Value
		for _, e := range phi.Edges {
			if b, ok := e.(*ssa.BinOp); ok && b.X == ssa.Value(phi) {
				continue
			}
			init = e
		}
		if init != ssa.Value(fn.Params[0]) {
			continue
		}
		sum, ok := l.Bound.(*ssa.BinOp)
		if !ok || sum.Op != token.ADD {
			continue
		}
		if (sum.X == ssa.Value(fn.Params[0]) && sum.Y == ssa.Value(fn.Params[1])) || (sum.Y == ssa.Value(fn.Params[0]) && sum.X == ssa.Value(fn.Params[1])) {
			return l, true
		}
	}
	return nil, false
}

// SignIffApproved: C06.O1 (also C01/C02.O10, C03.O5, C05.O7).
func (c *Ctx) SignIffApproved(prop string, only map[string]bool) {
	s := c.Signer(prop + ".anchors")
	sl := c.Slashing(prop + ".anchors")
	if !s.OK() || !sl.OK() {
		return
	}
	rule := "C06.O1 sign.iff-approved"
	resT := c.P.LookupType(pkgRules, "Result")
	enum := c.EnumValues(resT)
	n := 0
	for _, site := range s.Sites {
		if only != nil && !only[s.NameOf(site.Endpoint)] {
			continue
		}
		n++
		run := s.RunRules[site.Endpoint]
		var wantIdx ssa.Value
		if site.Batch {
			l, ok := scatterLoopIdx(site.Fn)
			if !ok {
				c.R.Unknown(rule, Fn(site.Fn), c.Pos(site.Call), "signing happens in a closure that is not a scatter worker loop `for i := offset; i < offset+entries; i++`")
				continue
			}
			wantIdx = l.Idx
			site.Idx = l.Idx
		}
		names := []string{}
		for name := range enum {
			names = append(names, name)
		}
		sort.Strings(names)
		bad := false
		for _, name := range names {
			val := enum[name]
			if val == sl.APPROVED {
				continue
			}
			target := site.Call.(ssa.Instruction)
			x, path := an.Cut(an.CutQuery{From: an.Entry(site.Fn), Target: func(i ssa.Instruction) bool { return i == target },
				AcceptEdge: func(b *ssa.BasicBlock, i int, a *an.Atom) bool {
					if a == nil {
						return false
					}
					for _, side := range [][2]ssa.Value{{a.LV, a.RV}, {a.RV, a.LV}} {
						idx, ok := verdictLoad(side[0], run)
						if !ok {
							continue
						}
						if site.Batch {
							if idx != wantIdx {
								continue
							}
						} else if !an.IsConstInt(idx, 0) {
							continue
						}
						if a.Op == "!=" && an.IsConstInt(side[1], val) {
							return true
						}
						if a.Op == "==" && an.IsConstInt(side[1], sl.APPROVED) {
							return true
						}
					}
					// table form: `if r, rejected := table[verdict]; rejected { return }` - the miss edge of a lookup in a package-level
					// map that is only initialised, with constant keys: the verdict is none of the keys
					if a.Op == "false" {
						if ex, ok := a.LV.(*ssa.Extract); ok && ex.Index == 1 {
							if lk, ok := ex.Tuple.(*ssa.Lookup); ok && lk.CommaOk {
								if idx, ok := verdictLoad(lk.Index, run); ok && ((site.Batch && idx == wantIdx) || (!site.Batch && an.IsConstInt(idx, 0))) {
									if ld, ok := lk.X.(*ssa.UnOp); ok {
										if g, ok := ld.X.(*ssa.Global); ok {
											if keys, ok := c.globalMapConstKeys(g); ok && keys[val] {
												return true
											}
										}
									}
								}
							}
						}
					}
					return false
				}})
			if x != nil {
				bad = true
				c.R.Fail(rule, Fn(site.Fn)+":"+name, c.Pos(site.Call), "a signature can be produced when the rules verdict for this request is "+name, "signing only where the verdict of this request's own position is APPROVED", an.PathString(c.Pos, path))
			}
		}
		if !bad {
			pos := "position 0"
			if site.Batch {
				pos = "the worker's own index"
			}
			c.R.OK(rule, Fn(site.Fn), c.Pos(site.Call), "signing is cut by [verdict != UNKNOWN], [!= DENIED], [!= FAILED] on the RunRules result at "+pos)
		}
		// the RunRules result must be used as returned: no store into it in the signer
		for _, f := range WithClosures(site.Endpoint) {
			for _, b := range f.Blocks {
				for _, ins := range b.Instrs {
					if st, ok := ins.(*ssa.Store); ok {
						if ia, ok := st.Addr.(*ssa.IndexAddr); ok && sliceRoot(ia.X) == run.Value() {
							c.R.Fail(rule, Fn(f)+":verdict-overwrite", c.Pos(st), "the signer overwrites the verdicts returned by the rules", "verdicts are read-only in the signer", nil)
						}
					}
				}
			}
		}
		// the RunRules call must be a plain call dominating the site's function entry (for closures: made in the parent before the closure is created)
		if _, plain := run.(*ssa.Call); !plain {
			c.R.Fail(rule, Fn(site.Endpoint)+":runrules", c.Pos(run), "RunRules is not a plain synchronous call", "verdicts are complete before signing starts", nil)
		}
	}
	floor := 5
	if only != nil {
		floor = len(only)
	}
	c.R.Floor(rule, "signing sites", n, floor)
	c.EnumClosure(prop, resT)
}

// globalMapConstKeys: g is a package-level map that is assigned once, in its package's init, a map literal with constant
// integer keys, and is never modified afterwards (no update, delete or clear through any load of g in the module).
func (c *Ctx) globalMapConstKeys(g *ssa.Global) (map[int64]bool, bool) {
	key := "gmapkeys:" + g.String()
	if v, ok := c.memo[key].(map[int64]bool); ok {
		return v, v != nil
	}
	c.memo[key] = map[int64]bool(nil)
	if g.Pkg == nil || len(c.globalWrittenOutsideInit(g)) > 0 {
		return nil, false
	}
	ini := g.Pkg.Func("init")
	if ini == nil {
		return nil, false
	}
	var mk *ssa.MakeMap
	nst := 0
	for _, b := range ini.Blocks {
		for _, ins := range b.Instrs {
			if st, ok := ins.(*ssa.Store); ok && st.Addr == ssa.Value(g) {
				nst++
				mk, _ = st.Val.(*ssa.MakeMap)
			}
		}
	}
	if nst != 1 || mk == nil {
		return nil, false
	}
	keys := map[int64]bool{}
	for _, r := range *mk.Referrers() {
		switch x := r.(type) {
		case *ssa.MapUpdate:
			k, ok := x.Key.(*ssa.Const)
			if !ok {
				return nil, false
			}
			v, exact := constInt64(k)
			if !exact {
				return nil, false
			}
			keys[v] = true
		case *ssa.Store, *ssa.DebugRef:
		default:
			return nil, false
		}
	}
	// no modification through loads of g anywhere
	for _, fn := range c.P.ModuleFuncs() {
		for _, b := range fn.Blocks {
			for _, ins := range b.Instrs {
				var m ssa.Value
				switch x := ins.(type) {
				case *ssa.MapUpdate:
					m = x.Map
				case *ssa.Call:
					if bi, ok := x.Call.Value.(*ssa.Builtin); ok && (bi.Name() == "delete" || bi.Name() == "clear") {
						m = x.Call.Args[0]
					}
				}
				if ld, ok := m.(*ssa.UnOp); ok && ld.X == ssa.Value(g) {
					return nil, false
				}
			}
		}
	}
	c.memo[key] = keys
	return keys, true
}

// tableFieldConsts: v is field f of the value looked up in a package-level, init-only map with constant keys whose values are
// struct literals: the set of integer constants that field f holds across the literal's entries.
func (c *Ctx) tableFieldConsts(v ssa.Value) (map[int64]bool, bool) {
	var structVal ssa.Value
	fieldIdx := -1
	if fld, ok := v.(*ssa.Field); ok {
		structVal, fieldIdx = fld.X, fld.Field
	} else if ld, ok := v.(*ssa.UnOp); ok {
		// the looked-up struct copied into a local first: load of &local.f with local = the lookup's value
		if fa, ok := ld.X.(*ssa.FieldAddr); ok {
			if a, ok := fa.X.(*ssa.Alloc); ok {
				if inner, ok := an.ResolveCell(a); ok {
					structVal, fieldIdx = inner, fa.Field
				}
			}
		}
	}
	if structVal == nil {
		return nil, false
	}
	var lk *ssa.Lookup
	switch x := structVal.(type) {
	case *ssa.Extract:
		lk, _ = x.Tuple.(*ssa.Lookup)
		if x.Index != 0 {
			return nil, false
		}
	case *ssa.Lookup:
		lk = x
	}
	if lk == nil {
		return nil, false
	}
	ld, ok := lk.X.(*ssa.UnOp)
	if !ok {
		return nil, false
	}
	g, ok := ld.X.(*ssa.Global)
	if !ok {
		return nil, false
	}
	if _, ok := c.globalMapConstKeys(g); !ok {
		return nil, false
	}
	ini := g.Pkg.Func("init")
	var mk *ssa.MakeMap
	for _, b := range ini.Blocks {
		for _, ins := range b.Instrs {
			if st, ok := ins.(*ssa.Store); ok && st.Addr == ssa.Value(g) {
				mk, _ = st.Val.(*ssa.MakeMap)
			}
		}
	}
	if mk == nil {
		return nil, false
	}
	out := map[int64]bool{}
	for _, r := range *mk.Referrers() {
		mu, ok := r.(*ssa.MapUpdate)
		if !ok {
			continue
		}
		load, ok := mu.Value.(*ssa.UnOp)
		if !ok {
			return nil, false
		}
		lit, ok := load.X.(*ssa.Alloc)
		if !ok {
			return nil, false
		}
		set := false
		for _, r2 := range *lit.Referrers() {
			fa, ok := r2.(*ssa.FieldAddr)
			if !ok || fa.Field != fieldIdx {
				continue
			}
			for _, r3 := range *fa.Referrers() {
				if st, ok := r3.(*ssa.Store); ok {
					k, ok := st.Val.(*ssa.Const)
					if !ok {
						return nil, false
					}
					val, exact := constInt64(k)
					if !exact {
						return nil, false
					}
					out[val] = true
					set = true
				}
			}
		}
		if !set {
			out[0] = true // the field keeps its zero value in this entry
		}
	}
	return out, len(out) > 0
}

// EnumClosure: no production code manufactures a value of the enum type other than its declared constants.
func (c *Ctx) EnumClosure(prop string, t *types.Named) {
	key := "enumclosure:" + t.String()
	rule := "C06.O1 enum-closure"
	if c.memo[key+c.R.Property] != nil {
		return
	}
	c.memo[key+c.R.Property] = true
	vals := c.EnumValues(t)
	valid := map[int64]bool{}
	for _, v := range vals {
		valid[v] = true
	}
	bad := 0
	nconst := 0
	for _, fn := range c.P.ModuleFuncs() {
		if prog.IsTestish(prog.PkgPathOf(fn)) {
			continue
		}
		for _, b := range fn.Blocks {
			for _, ins := range b.Instrs {
				switch x := ins.(type) {
				case *ssa.Convert:
					if types.Identical(x.Type(), t) {
						if k, ok := x.X.(*ssa.Const); ok {
							if v, exact := constInt64(k); exact && valid[v] {
								continue
							}
						}
						bad++
						c.R.Fail(rule, Fn(fn)+":convert", c.Pos(ins), "a "+t.Obj().Name()+" value is manufactured by conversion from "+an.Term(x.X)+"; switch statements over the verdict have no default arm and would treat it as APPROVED", "only declared constants", nil)
					}
				case *ssa.BinOp:
					if types.Identical(x.Type(), t) {
						bad++
						c.R.Fail(rule, Fn(fn)+":arith", c.Pos(ins), "arithmetic produces a "+t.Obj().Name()+" value", "only declared constants", nil)
					}
				case *ssa.UnOp:
					if types.Identical(x.Type(), t) && x.Op != token.MUL {
						bad++
						c.R.Fail(rule, Fn(fn)+":arith", c.Pos(ins), "arithmetic produces a "+t.Obj().Name()+" value", "only declared constants", nil)
					}
				}
				for _, op := range ins.Operands(nil) {
					if op == nil || *op == nil {
						continue
					}
					if k, ok := (*op).(*ssa.Const); ok && types.Identical(k.Type(), t) {
						nconst++
						if v, exact := constInt64(k); !exact || !valid[v] {
							bad++
							c.R.Fail(rule, Fn(fn)+":const", c.Pos(ins), fmt.Sprintf("constant %s is not a declared %s value", k.Value, t.Obj().Name()), "only declared constants", nil)
						}
					}
				}
			}
		}
	}
	c.R.Floor(rule, "uses of "+t.Obj().Name()+" constants", nconst, 10)
	if bad == 0 {
		c.R.OK(rule, t.Obj().Pkg().Name()+"."+t.Obj().Name(), "-", fmt.Sprintf("%d constant uses, all declared values %v; no conversion or arithmetic produces the type", nconst, sortedKeys(vals)))
	}
}

func sortedKeys(m map[string]int64) []string {
	var out []string
	for k := range m {
		out = append(out, k)
	}
	sort.Strings(out)
	return out
}

// depCalls returns the error-returning calls in the backward data slice of v (within its function).
func depCalls(v ssa.Value) []*ssa.Call {
	seen := map[ssa.Value]bool{}
	var out []*ssa.Call
	var walk func(x ssa.Value, d int)
	walk = func(x ssa.Value, d int) {
		if x == nil || seen[x] || d > 30 {
			return
		}
		seen[x] = true
		switch y := x.(type) {
		case *ssa.Extract:
			walk(y.Tuple, d+1)
		case *ssa.Call:
			if errResultIndex2(y.Call.Signature()) >= 0 {
				out = append(out, y)
			}
			for _, a := range y.Call.Args {
				walk(a, d+1)
			}
		case *ssa.Slice:
			walk(y.X, d+1)
		case *ssa.UnOp:
			walk(y.X, d+1)
		case *ssa.Alloc:
			if refs := y.Referrers(); refs != nil {
				for _, r := range *refs {
					if st, ok := r.(*ssa.Store); ok && st.Addr == ssa.Value(y) {
						walk(st.Val, d+1)
					}
					// copy(dst[:], src) into the alloc
					if sl, ok := r.(*ssa.Slice); ok {
						for _, r2 := range *sl.Referrers() {
							if call, ok := r2.(*ssa.Call); ok && isBuiltin(call, "copy") && call.Call.Args[0] == ssa.Value(sl) {
								walk(call.Call.Args[1], d+1)
							}
						}
					}
				}
			}
		case *ssa.Convert:
			walk(y.X, d+1)
		case *ssa.ChangeType:
			walk(y.X, d+1)
		case *ssa.MakeInterface:
			walk(y.X, d+1)
		case *ssa.Phi:
			for _, e := range y.Edges {
				walk(e, d+1)
			}
		case *ssa.FieldAddr:
			// field of a local composite (e.g. attestation.BeaconBlockRoot): follow to the object
			walk(y.X, d+1)
		case *ssa.IndexAddr:
			walk(y.X, d+1)
		}
	}
	walk(v, 0)
	return out
}

// dependsOnCall reports whether v's backward data slice contains a call satisfying pred.
func dependsOnCall(v ssa.Value, pred func(ssa.CallInstruction) bool, d int) bool {
	if v == nil || d > 20 {
		return false
	}
	switch y := v.(type) {
	case *ssa.Call:
		if pred(y) {
			return true
		}
		if y.Call.IsInvoke() && dependsOnCall(y.Call.Value, pred, d+1) {
			return true
		}
		for _, a := range y.Call.Args {
			if dependsOnCall(a, pred, d+1) {
				return true
			}
		}
	case *ssa.Extract:
		return dependsOnCall(y.Tuple, pred, d+1)
	case *ssa.Slice:
		return dependsOnCall(y.X, pred, d+1)
	case *ssa.Convert:
		return dependsOnCall(y.X, pred, d+1)
	case *ssa.ChangeType:
		return dependsOnCall(y.X, pred, d+1)
	case *ssa.MakeInterface:
		return dependsOnCall(y.X, pred, d+1)
	case *ssa.Phi:
		for _, e := range y.Edges {
			if !dependsOnCall(e, pred, d+1) {
				return false
			}
		}
		return len(y.Edges) > 0
	}
	return false
}

func errResultIndex2(sig *types.Signature) int {
	res := sig.Results()
	for i := res.Len() - 1; i >= 0; i-- {
		if isErrorType(res.At(i).Type()) {
			return i
		}
	}
	return -1
}

// SuccessNeedsEverything: C06.O2 and O3 in the signer service.
func (c *Ctx) SuccessNeedsEverything(prop string) {
	s := c.Signer(prop + ".anchors")
	if !s.OK() {
		return
	}
	rule2 := "C06.O2 success.needs-everything"
	rule3 := "C06.O3 sig.iff-succeeded"
	succ, ok := c.EnumConst(rule2, pkgCore, "ResultSucceeded")
	if !ok {
		return
	}
	nsucc := 0
	for _, name := range signerEndpoints {
		E := s.Endpoints[name]
		batch := name == "SignBeaconAttestations" || name == "Multisign"
		if !batch {
			for _, ret := range an.Returns(E) {
				resV, sigV := an.Result(ret, 0), an.Result(ret, 1)
				if an.IsConstInt(resV, succ) {
					nsucc++
					// signature must be the output of a signing site
					ex, ok := sigV.(*ssa.Extract)
					var sc *ssa.Call
					if ok {
						sc, _ = ex.Tuple.(*ssa.Call)
					}
					if sc == nil || !s.SignFns[sc.Call.StaticCallee()] {
						c.R.Fail(rule3, Fn(E), c.Pos(ret), "SUCCEEDED is returned with something other than the signing helper's output: "+an.Term(sigV), "(ResultSucceeded, signature from Sign)", nil)
						continue
					}
					c.needAllErrNil(rule2, E, ret, sigV)
					continue
				}
				// non-success: signature must be nil
				if !isNilConst(sigV) {
					c.R.Fail(rule3, Fn(E), c.Pos(ret), "a signature is returned together with a result that is not the constant ResultSucceeded", "signature non-nil only with ResultSucceeded", nil)
					continue
				}
				if _, isConst := resV.(*ssa.Const); !isConst {
					// a result read from an init-only table of constants none of which is SUCCEEDED
					if vals, ok := c.tableFieldConsts(resV); ok && !vals[succ] {
						continue
					}
					// variable result: must be known != Succeeded
					target := ssa.Instruction(ret)
					if x, path := an.Cut(an.CutQuery{From: an.Entry(E), Target: func(i ssa.Instruction) bool { return i == target },
						AcceptEdge: func(b *ssa.BasicBlock, i int, a *an.Atom) bool {
							return a != nil && a.Op == "!=" && ((a.LV == resV && an.IsConstInt(a.RV, succ)) || (a.RV == resV && an.IsConstInt(a.LV, succ)))
						}}); x != nil {
						c.R.Fail(rule3, Fn(E), c.Pos(ret), "a result that may be SUCCEEDED is returned without a signature", "variable results are returned only below [result != ResultSucceeded]", an.PathString(c.Pos, path))
					}
				}
			}
			continue
		}
		// batch: stores into results / signatures inside closures
		var sigRoot, resRoot ssa.Value
		for _, ret := range an.Returns(E) {
			if !isNilConst(an.Result(ret, 1)) {
				sigRoot = sliceRootExact(an.Result(ret, 1))
			}
			if r := sliceRootExact(an.Result(ret, 0)); r != nil {
				if mk, ok := r.(*ssa.MakeSlice); ok {
					if resRoot == nil || lenIsData(mk) {
						resRoot = r
					}
				}
			}
		}
		if sigRoot == nil || resRoot == nil {
			c.R.Unknown(rule3, Fn(E), c.P.FuncPos(E), "cannot identify the result / signature slices of the batch endpoint")
			continue
		}
		nSigStores := 0
		for _, f := range WithClosures(E) {
			for _, b := range f.Blocks {
				for _, ins := range b.Instrs {
					st, ok := ins.(*ssa.Store)
					if !ok {
						continue
					}
					ia, ok := st.Addr.(*ssa.IndexAddr)
					if !ok {
						continue
					}
					root := sliceRootExact(ia.X)
					if root == sigRoot {
						nSigStores++
						// same block stores results[idx] = Succeeded with the same idx
						pair := false
						for _, i2 := range b.Instrs {
							if s2, ok := i2.(*ssa.Store); ok {
								if ia2, ok := s2.Addr.(*ssa.IndexAddr); ok && sliceRootExact(ia2.X) == resRoot && ia2.Index == ia.Index && an.IsConstInt(s2.Val, succ) {
									pair = true
								}
							}
						}
						ex, _ := st.Val.(*ssa.Extract)
						var sc *ssa.Call
						if ex != nil {
							sc, _ = ex.Tuple.(*ssa.Call)
						}
						if !pair {
							c.R.Fail(rule3, Fn(f), c.Pos(st), "signatures[i] is set without results[i] = ResultSucceeded for the same i", "signature and SUCCEEDED are stored together at one index", nil)
						} else if sc == nil || !s.SignFns[sc.Call.StaticCallee()] {
							c.R.Fail(rule3, Fn(f), c.Pos(st), "signatures[i] receives something other than the signing helper's output", "signatures[i] = output of Sign", nil)
						} else {
							c.needAllErrNil(rule2, f, st, st.Val)
							nsucc++
						}
					}
					if root == resRoot && an.IsConstInt(st.Val, succ) {
						pair := false
						for _, i2 := range b.Instrs {
							if s2, ok := i2.(*ssa.Store); ok {
								if ia2, ok := s2.Addr.(*ssa.IndexAddr); ok && sliceRootExact(ia2.X) == sigRoot && ia2.Index == ia.Index {
									pair = true
								}
							}
						}
						if !pair {
							c.R.Fail(rule3, Fn(f), c.Pos(st), "results[i] = ResultSucceeded without a signature at the same index", "signature and SUCCEEDED are stored together at one index", nil)
						}
					}
					if root == resRoot {
						if _, isConst := st.Val.(*ssa.Const); !isConst {
							// e.g. results[i] = checkRes: must be below [checkRes != Succeeded]
							v := st.Val
							target := ssa.Instruction(st)
							if vals, ok := c.tableFieldConsts(v); ok && !vals[succ] {
								continue // read from an init-only table of constants none of which is SUCCEEDED
							}
							if x, path := an.Cut(an.CutQuery{From: an.Entry(f), Target: func(i ssa.Instruction) bool { return i == target },
								AcceptEdge: func(b *ssa.BasicBlock, i int, a *an.Atom) bool {
									return a != nil && a.Op == "!=" && ((a.LV == v && an.IsConstInt(a.RV, succ)) || (a.RV == v && an.IsConstInt(a.LV, succ)))
								}}); x != nil {
								c.R.Fail(rule3, Fn(f), c.Pos(st), "a result that may be SUCCEEDED is stored without a signature", "variable results are stored only below [result != ResultSucceeded]", an.PathString(c.Pos, path))
							}
						}
					}
				}
			}
		}
		if nSigStores == 0 {
			c.R.Unknown(rule3, Fn(E), c.P.FuncPos(E), "no store into the signature slice found")
		}
	}
	// the signing helper itself: nil error only as the verdict of AccountSigner.Sign, output derived from its result
	for fn := range s.SignFns {
		isSign := func(ci ssa.CallInstruction) bool { return IsInvokeOf(ci, pkgWTypes, "AccountSigner", "Sign") }
		esc, commits := NilErrorNeeds(fn, isSign)
		for _, e := range esc {
			c.R.Fail(rule2, Fn(fn)+":sign-error", c.Pos(e.Ret), "the signing helper "+e.Why+" although AccountSigner.Sign did not succeed", "nil error only below [Sign err == nil]", an.PathString(c.Pos, e.Path))
		}
		okOut := true
		for _, ret := range an.Returns(fn) {
			if errResultIndex(fn) == 1 && isNilConst(unwrapErr(an.Result(ret, 1))) {
				found := false
				for _, d := range depCalls(an.Result(ret, 0)) {
					if isSign(d) {
						found = true
					}
				}
				// Marshal() of the signature is an invoke without error result: walk operands manually
				if !found {
					found = dependsOnCall(an.Result(ret, 0), isSign, 0)
				}
				if !found {
					okOut = false
					c.R.Fail(rule2, Fn(fn)+":sign-output", c.Pos(ret), "the bytes returned by the signing helper are not derived from the signature AccountSigner.Sign produced", "output = Marshal of the Sign result", nil)
				}
			}
		}
		if len(esc) == 0 && len(commits) > 0 && okOut {
			c.R.OK(rule2, Fn(fn), c.P.FuncPos(fn), "signing helper: nil error only below [Sign err == nil]; output derived from the Sign result")
		}
	}
	c.R.Floor(rule2, "success sites in the signer", nsucc, 5)
	if nsucc >= 5 {
		c.R.OK(rule3, "signer-endpoints", "-", fmt.Sprintf("%d success sites: signature is the Sign output and is paired with ResultSucceeded; every other return/store carries no signature", nsucc))
	}
}

func lenIsData(mk *ssa.MakeSlice) bool {
	call, ok := mk.Len.(*ssa.Call)
	return ok && isBuiltin(call, "len")
}

// needAllErrNil: the success site must be cut by the nil-error edge of every error-returning call its signature depends on.
func (c *Ctx) needAllErrNil(rule string, fn *ssa.Function, site ssa.Instruction, sig ssa.Value) {
	deps := depCalls(sig)
	if len(deps) == 0 {
		c.R.Unknown(rule, Fn(fn), c.Pos(site), "the signature does not depend on any call")
		return
	}
	var names []string
	for _, d := range deps {
		if d.Parent() != fn {
			continue
		}
		errs := map[ssa.Value]bool{}
		for _, e := range errValuesOfCall(d) {
			errs[e] = true
		}
		name := CalleeName(d)
		if len(errs) == 0 {
			c.R.Fail(rule, Fn(fn)+":"+name, c.Pos(d), "the error result of "+name+" is discarded although its output feeds the signature", "every error on the way to the signature is checked", nil)
			continue
		}
		if x, path := an.Cut(an.CutQuery{From: an.Entry(fn), Target: func(i ssa.Instruction) bool { return i == site },
			AcceptEdge: func(b *ssa.BasicBlock, i int, a *an.Atom) bool { return errNilAtom(a, errs) }}); x != nil {
			c.R.Fail(rule, Fn(fn)+":"+name, c.Pos(site), "SUCCEEDED with a signature is reachable although "+name+" failed", "success only past [err == nil] of "+name, an.PathString(c.Pos, path))
			continue
		}
		names = append(names, name)
	}
	sort.Strings(names)
	c.R.OK(rule, Fn(fn), c.Pos(site), "success is cut by the nil-error edges of: "+strings.Join(names, ", "))
}

// globalMapConstEntries: g is an init-only package-level map (see globalMapConstKeys) whose values are integer constants too:
// its entries.
func (c *Ctx) globalMapConstEntries(g *ssa.Global) (map[int64]int64, bool) {
	if _, ok := c.globalMapConstKeys(g); !ok {
		return nil, false
	}
	ini := g.Pkg.Func("init")
	var mk *ssa.MakeMap
	for _, b := range ini.Blocks {
		for _, ins := range b.Instrs {
			if st, ok := ins.(*ssa.Store); ok && st.Addr == ssa.Value(g) {
				mk, _ = st.Val.(*ssa.MakeMap)
			}
		}
	}
	if mk == nil {
		return nil, false
	}
	out := map[int64]int64{}
	for _, r := range *mk.Referrers() {
		mu, ok := r.(*ssa.MapUpdate)
		if !ok {
			continue
		}
		k, ok1 := mu.Key.(*ssa.Const)
		v, ok2 := mu.Value.(*ssa.Const)
		if !ok1 || !ok2 {
			return nil, false
		}
		kv, e1 := constInt64(k)
		vv, e2 := constInt64(v)
		if !e1 || !e2 {
			return nil, false
		}
		if old, dup := out[kv]; dup && old != vv {
			return nil, false
		}
		out[kv] = vv
	}
	return out, true
}
