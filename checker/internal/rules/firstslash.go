package rules

import (
	"go/constant"
	"strings"

	"dirkcheck/internal/prog"

	"golang.org/x/tools/go/ssa"
)

// FirstSlashOnly (C07.O9 name.first-slash-only): an account specifier is `wallet/account`, cut at the FIRST slash: wallets
// accept account names that contain further slashes, and the fetcher, the checker and the handlers all treat the rest as the
// account's name. Code that cuts a name at every slash - strings.Split / SplitAfter / FieldsFunc / LastIndex / LastIndexByte
// with the separator "/" - disagrees with the rest of the system about such names: one endpoint refuses (or truncates) what
// another serves. In production code the separator "/" is only ever handed to functions that look for its first occurrence
// or its presence (Contains, Index, IndexByte, Cut, SplitN, HasPrefix, HasSuffix, TrimPrefix, TrimSuffix, Join ...).
func (c *Ctx) FirstSlashOnly(prop string) {
	rule := "C07.O9 name.first-slash-only"
	every := map[string]bool{"Split": true, "SplitAfter": true, "LastIndex": true, "LastIndexByte": true, "LastIndexAny": true, "FieldsFunc": true, "Count": true}
	n := 0
	for _, fn := range c.P.ModuleFuncs() {
		p := prog.PkgPathOf(fn)
		if prog.IsTestish(p) || fn.Blocks == nil || strings.Contains(p, "/testing") || strings.Contains(p, "/mock") {
			continue
		}
		for _, ci := range Calls(fn, func(ci ssa.CallInstruction) bool {
			f := ci.Common().StaticCallee()
			return f != nil && f.Pkg != nil && (f.Pkg.Pkg.Path() == "strings" || f.Pkg.Pkg.Path() == "bytes")
		}) {
			slash := false
			for _, a := range ci.Common().Args {
				if k, ok := a.(*ssa.Const); ok && k.Value != nil {
					if k.Value.Kind() == constant.String && constant.StringVal(k.Value) == "/" {
						slash = true
					}
					if k.Value.Kind() == constant.Int {
						if v, exact := constant.Int64Val(k.Value); exact && v == '/' && (strings.HasSuffix(ci.Common().StaticCallee().Name(), "Byte") || strings.HasSuffix(ci.Common().StaticCallee().Name(), "Rune")) {
							slash = true
						}
					}
				}
			}
			if !slash {
				continue
			}
			n++
			name := ci.Common().StaticCallee().Name()
			if every[name] {
				c.R.Fail(rule, Fn(fn)+":"+name, c.Pos(ci), "a name is cut at every slash ("+name+" with \"/\"): account names may contain slashes, the rest of the system cuts at the first one only - this site refuses or truncates names that other endpoints serve", "\"/\" only with Contains / Index / Cut / SplitN", nil)
			} else {
				c.R.OK(rule, Fn(fn)+":"+name, c.Pos(ci), name+" looks for the first slash (or its presence) only")
			}
		}
	}
	c.R.Floor(rule, "uses of the separator \"/\" in production code", n, 3)
}
