package rules

import (
	"fmt"
	"go/types"
	"sort"
	"strings"

	"dirkcheck/internal/an"
	"dirkcheck/internal/prog"

	"golang.org/x/tools/go/ssa"
)

var spFields = []string{"HighestAttestedSourceEpoch", "HighestAttestedTargetEpoch", "HighestProposedSlot"}

// spFieldStore: ins stores into field f of a rules.SlashingProtection object; returns object and field.
func spFieldStore(ins ssa.Instruction) (obj ssa.Value, field string, st *ssa.Store) {
	s, ok := ins.(*ssa.Store)
	if !ok {
		return nil, "", nil
	}
	fa, ok := s.Addr.(*ssa.FieldAddr)
	if !ok || !namedIs(fa.X.Type(), pkgRules, "SlashingProtection") {
		return nil, "", nil
	}
	return fa.X, fieldNameOf(fa), s
}

// isSPFieldLoad: v = load obj.field of a SlashingProtection.
func isSPFieldLoad(v ssa.Value) (obj ssa.Value, field string) {
	owner, f, base := an.FieldOf(v)
	if owner == nil || !namedIs(owner, pkgRules, "SlashingProtection") {
		return nil, ""
	}
	return base, f
}

// raisingStore classifies a store to a SlashingProtection field as monotone:
//
//	(a) obj.f = max(obj.f, X.f)       -> returns X as source
//	(b) obj.f = v below [obj.f < v]   -> returns nil source, ok
//	(c) constant -1 into a fresh composite literal
func raisingStore(fn *ssa.Function, st *ssa.Store, obj ssa.Value, field string) (src ssa.Value, kind string) {
	if k, ok := constIntOf(st.Val); ok && k == -1 {
		if a, ok := obj.(*ssa.Alloc); ok && a.Heap {
			return nil, "init"
		}
	}
	if call, ok := st.Val.(*ssa.Call); ok && isBuiltin(call, "max") && len(call.Call.Args) == 2 {
		o1, f1 := isSPFieldLoad(call.Call.Args[0])
		o2, f2 := isSPFieldLoad(call.Call.Args[1])
		if f1 == field && f2 == field {
			if o1 == obj && o2 != nil {
				return o2, "max"
			}
			if o2 == obj && o1 != nil {
				return o1, "max"
			}
		}
		// obj.f = max(obj.f, v) for a plain value v
		if f1 == field && o1 == obj && o2 == nil {
			return nil, "maxval"
		}
		if f2 == field && o2 == obj && o1 == nil {
			return nil, "maxval"
		}
	}
	// guarded assignment: every path to the store passes [obj.f < v] with v the stored value
	target := ssa.Instruction(st)
	x, _ := an.Cut(an.CutQuery{From: an.Entry(fn), Target: func(i ssa.Instruction) bool { return i == target },
		AcceptEdge: func(b *ssa.BasicBlock, i int, a *an.Atom) bool {
			if a == nil || a.Op != "<" {
				return false
			}
			o, f := isSPFieldLoad(a.LV)
			return o == obj && f == field && a.RV == st.Val
		}})
	if x == nil {
		return nil, "guarded"
	}
	return nil, ""
}

// ImportRules: C10 O1-O4 in the import command, O5 in the rules-level import.
func (c *Ctx) ImportRules(prop string) {
	s := c.Slashing(prop + ".anchors")
	if !s.OK() {
		return
	}
	// the command function: module function (package main) that invokes rules.Service.ImportSlashingProtection
	var F *ssa.Function
	var impCall ssa.CallInstruction
	for _, fn := range c.P.ModuleFuncs() {
		if prog.IsTestish(prog.PkgPathOf(fn)) {
			continue
		}
		for _, ci := range Calls(fn, func(ci ssa.CallInstruction) bool {
			return ci.Common().IsInvoke() && ci.Common().Method.Name() == "ImportSlashingProtection" && namedIs(ci.Common().Value.Type(), pkgRules, "Service")
		}) {
			F, impCall = fn, ci
		}
	}
	if F == nil {
		c.R.Anchor(prop+".anchors", "import-command", "no function invoking rules.Service.ImportSlashingProtection found")
		return
	}
	// ---- O1 metadata gate
	rule1 := "C10.O1 metadata-gate"
	isField := func(v ssa.Value, name string) bool {
		_, f, _ := an.FieldOf(v)
		return f == name
	}
	var isViperRoot func(v ssa.Value) bool
	isViperRoot = func(v ssa.Value) bool {
		if call, ok := v.(*ssa.Call); ok && call.Call.StaticCallee() != nil && call.Call.StaticCallee().String() == "github.com/spf13/viper.GetString" {
			return strings.Contains(an.Term(call.Call.Args[0]), "genesis-validators-root")
		}
		// the value a configuration helper hands back on success
		if rvs, ok := HelperSuccessResults(v); ok && len(rvs) > 0 {
			for _, rv := range rvs {
				if !isViperRoot(rv.Val) {
					return false
				}
			}
			return true
		}
		return false
	}
	gates := []struct {
		name string
		acc  func(a *an.Atom) bool
	}{
		{"interchange format version == \"5\"", func(a *an.Atom) bool {
			if a == nil || a.Op != "==" {
				return false
			}
			return (isField(a.LV, "InterchangeFormatVersion") && an.Term(a.RV) == `"5"`) || (isField(a.RV, "InterchangeFormatVersion") && an.Term(a.LV) == `"5"`)
		}},
		{"configured genesis validators root == file's root", func(a *an.Atom) bool {
			if a == nil || a.Op != "==" {
				return false
			}
			return (isField(a.LV, "GenesisValidatorsRoot") && isViperRoot(a.RV)) || (isField(a.RV, "GenesisValidatorsRoot") && isViperRoot(a.LV))
		}},
		{"configured root is set", func(a *an.Atom) bool {
			if a == nil || a.Op != "!=" {
				return false
			}
			return (isViperRoot(a.LV) && isEmptyString(a.RV)) || (isViperRoot(a.RV) && isEmptyString(a.LV))
		}},
	}
	// everything that opens / writes the store must be below the gates: the rules-service construction and the import call
	var sinks []ssa.Instruction
	sinks = append(sinks, impCall.(ssa.Instruction))
	for _, ci := range Calls(F, func(ci ssa.CallInstruction) bool {
		f := ci.Common().StaticCallee()
		return f != nil && prog.InModule(f) && f.Signature.Results().Len() >= 1 && namedIs(f.Signature.Results().At(0).Type(), pkgRules, "Service")
	}) {
		sinks = append(sinks, ci)
	}
	for _, g := range gates {
		g := g
		bad := false
		for _, sk := range sinks {
			target := sk
			if x, path := an.Cut(an.CutQuery{From: an.Entry(F), Target: func(i ssa.Instruction) bool { return i == target },
				AcceptEdge: c.WithSummaries(func(a *an.Atom, sub Subst) bool { return g.acc(resolveAtom(a, sub)) })}); x != nil {
				bad = true
				c.R.Fail(rule1, Fn(F)+":"+g.name, c.Pos(sk), "the slashing-protection store is opened or written without ["+g.name+"]: a file for another chain or format would change the database", "store touched only below ["+g.name+"]", an.PathString(c.Pos, path))
			}
		}
		if !bad {
			c.R.OK(rule1, Fn(F)+":"+g.name, c.Pos(impCall), "store opened/written only below ["+g.name+"]")
		}
	}
	// ---- the per-key loop
	rule2 := "C10.O2 no-silent-drop"
	rule3 := "C10.O3 monotone-merge"
	outMap := impCall.Common().Args[len(impCall.Common().Args)-1]
	// existing protection: result of ExportSlashingProtection in F
	var existing ssa.Value
	for _, ci := range Calls(F, func(ci ssa.CallInstruction) bool {
		return ci.Common().IsInvoke() && ci.Common().Method.Name() == "ExportSlashingProtection"
	}) {
		for _, r := range *ci.Value().Referrers() {
			if ex, ok := r.(*ssa.Extract); ok && ex.Index == 0 {
				existing = ex
			}
		}
	}
	// the merge may live in a package helper merge(entries, existing) (map, error): the import is then reached only past
	// its nil-error edge, and the per-key loop is analysed in the helper (success of the helper takes the import's place)
	successTargets := []ssa.Instruction{impCall.(ssa.Instruction)}
	if ex, ok := outMap.(*ssa.Extract); ok && ex.Index == 0 {
		if mcall, ok := ex.Tuple.(*ssa.Call); ok && !mcall.Call.IsInvoke() {
			if M := mcall.Call.StaticCallee(); M != nil && prog.InModule(M) && M.Blocks != nil && errResultIndex(M) >= 0 {
				errs := map[ssa.Value]bool{}
				for _, e := range errValuesOfCall(mcall) {
					errs[e] = true
				}
				target := impCall.(ssa.Instruction)
				if x, path := an.Cut(an.CutQuery{From: an.After(mcall), Target: func(i ssa.Instruction) bool { return i == target },
					AcceptEdge: func(b *ssa.BasicBlock, i int, a *an.Atom) bool { return errNilAtom(a, errs) }}); x != nil {
					c.R.Fail(rule2, Fn(F)+":order", c.Pos(impCall), "the rules-level import can run although merging the file's entries failed", "import only past [merge err == nil]", an.PathString(c.Pos, path))
					return
				}
				var mm ssa.Value
				var succ []ssa.Instruction
				okM := true
				for _, ret := range an.Returns(M) {
					if !isNilConst(unwrapErr(an.Result(ret, errResultIndex(M)))) {
						continue
					}
					r := an.Result(ret, 0)
					if mm != nil && r != mm {
						okM = false
					}
					mm = r
					succ = append(succ, ret)
				}
				var mexisting ssa.Value
				for k, a := range mcall.Call.Args {
					if a == existing && k < len(M.Params) {
						mexisting = M.Params[k]
					}
				}
				if okM && mm != nil {
					F, outMap, existing, successTargets = M, mm, mexisting, succ
				}
			}
		}
	}
	if _, ok := outMap.(*ssa.MakeMap); !ok {
		c.R.Unknown(rule2, Fn(F), c.Pos(impCall), "the map handed to the rules-level import is not a fresh map")
		return
	}
	isSuccessTarget := func(i ssa.Instruction) bool {
		for _, t := range successTargets {
			if t == i {
				return true
			}
		}
		return false
	}
	var upd *ssa.MapUpdate
	nupd := 0
	for _, b := range F.Blocks {
		for _, ins := range b.Instrs {
			if mu, ok := ins.(*ssa.MapUpdate); ok && mu.Map == outMap {
				upd = mu
				nupd++
			}
		}
	}
	if nupd != 1 {
		c.R.Unknown(rule2, Fn(F), c.P.FuncPos(F), fmt.Sprintf("expected exactly one update of the outgoing protection map, found %d", nupd))
		return
	}
	var loop *Loop
	for _, l := range FindLoops(F) {
		if l.FullRange && l.Body[upd.Block()] {
			if loop == nil || len(l.Body) > len(loop.Body) {
				loop = l
			}
		}
	}
	if loop == nil {
		c.R.Fail(rule2, Fn(F), c.Pos(upd), "the outgoing map is not filled in a full-range loop over the file's entries", "for i := range data { ...; out[key] = merged }", nil)
		return
	}
	// O2: an iteration reaches the next only through the map update
	if loop.IterationSkips(func(i ssa.Instruction) bool { return i == ssa.Instruction(upd) }) {
		hdr := loop.Header
		_, path := an.Cut(an.CutQuery{From: an.Point{Block: loop.BodyFirst, Idx: 0}, Target: func(i ssa.Instruction) bool { return i == hdr.Instrs[0] },
			AcceptInstr: func(i ssa.Instruction) bool { return i == ssa.Instruction(upd) }})
		c.R.Fail(rule2, Fn(F), c.Pos(upd), "an entry of the file can be passed over without its data reaching the outgoing map while the import still reports success", "every entry is handed on, or the import fails", an.PathString(c.Pos, path))
	} else if len(loop.BreakEdges()) > 0 && breaksToAny(loop, successTargets) {
		c.R.Fail(rule2, Fn(F), c.Pos(upd), "the loop over the file's entries can be left early and the import still runs", "all entries processed", nil)
	} else {
		c.R.OK(rule2, Fn(F), c.Pos(upd), "every iteration over the file's entries passes out[key] = record (or leaves with an error)")
	}
	// import call only after the loop
	{
		hdr, exitB := loop.Header, loop.Exit
		if x, path := an.Cut(an.CutQuery{From: an.Entry(F), Target: isSuccessTarget,
			AcceptEdge: func(b *ssa.BasicBlock, i int, a *an.Atom) bool { return b == hdr && b.Succs[i] == exitB }}); x != nil {
			c.R.Fail(rule2, Fn(F)+":order", c.Pos(impCall), "the rules-level import can run before all entries were merged", "import after the loop", an.PathString(c.Pos, path))
		}
	}
	// O3: the object stored (O) and the two sources of older data
	O := upd.Value
	keyVal := upd.Key
	type src struct {
		name   string
		lookup *ssa.Lookup
	}
	var srcs []src
	for _, b := range F.Blocks {
		for _, ins := range b.Instrs {
			lk, ok := ins.(*ssa.Lookup)
			if !ok || !lk.CommaOk || !loop.Body[lk.Block()] {
				continue
			}
			if lk.X == existing && existing != nil {
				srcs = append(srcs, src{"the existing database record", lk})
			}
			if lk.X == outMap {
				srcs = append(srcs, src{"an earlier entry of the same file", lk})
			}
		}
	}
	haveExisting, haveEarlier := false, false
	for _, sc := range srcs {
		if strings.HasPrefix(sc.name, "the existing") {
			haveExisting = true
		} else {
			haveEarlier = true
		}
	}
	if !haveExisting {
		c.R.Fail(rule3, Fn(F)+":existing", c.Pos(upd), "the merged record does not take the existing database record for the key into account", "existing[key] consulted", nil)
	}
	if !haveEarlier {
		c.R.Fail(rule3, Fn(F)+":earlier", c.Pos(upd), "a second entry for the same key in one file replaces the first instead of being merged with it", "out[key] consulted before it is overwritten", nil)
	}
	raises := c.raiseSummaries()
	for _, sc := range srcs {
		if !sameCellLoad(sc.lookup.Index, keyVal) && sc.lookup.Index != keyVal {
			c.R.Fail(rule3, Fn(F)+":key", c.Pos(sc.lookup), "the older record is looked up under another key than the one written", "same key", nil)
			continue
		}
		var val, okv ssa.Value
		for _, r := range *sc.lookup.Referrers() {
			if ex, ok := r.(*ssa.Extract); ok {
				if ex.Index == 0 {
					val = ex
				} else {
					okv = ex
				}
			}
		}
		// from the exists-true edge to the update: for each field a raise of O.f from val.f
		for _, f := range spFields {
			f := f
			isRaise := func(i ssa.Instruction) bool {
				if call, ok := i.(*ssa.Call); ok {
					if fields, ok := raises[call.Call.StaticCallee()]; ok && fields[f] && len(call.Call.Args) == 2 && call.Call.Args[0] == O && call.Call.Args[1] == val {
						return true
					}
				}
				if obj, fld, st := spFieldStore(i); st != nil && obj == O && fld == f {
					if sv, kind := raisingStore(F, st, obj, fld); kind == "max" && sv == val {
						return true
					}
					// if val.f > O.f { O.f = val.f }
					if o2, f2 := isSPFieldLoad(st.Val); o2 == val && f2 == f {
						if _, kind := raisingStore(F, st, obj, fld); kind == "guarded" {
							return true
						}
					}
				}
				return false
			}
			// start: the true edge of okv
			var starts []an.Point
			for _, b := range F.Blocks {
				for i := range b.Succs {
					a := an.EdgeAtom(b, i)
					if a != nil && a.Op == "true" && a.LV == okv {
						starts = append(starts, an.Point{Block: b.Succs[i], Idx: 0})
					}
				}
			}
			if len(starts) == 0 {
				c.R.Fail(rule3, Fn(F)+":"+f, c.Pos(sc.lookup), "the presence of "+sc.name+" is not tested", "if old, exists := ...; exists { raise }", nil)
				continue
			}
			bad := false
			for _, sp := range starts {
				if x, path := an.Cut(an.CutQuery{From: sp, Target: func(i ssa.Instruction) bool { return i == ssa.Instruction(upd) }, AcceptInstr: isRaise}); x != nil {
					bad = true
					c.R.Fail(rule3, Fn(F)+":"+f+":"+sc.name, c.Pos(upd), "the record written for a key can carry a lower "+f+" than "+sc.name+": the import would lower protection in that dimension (fields must be merged one by one, not all-or-nothing)", "new."+f+" = max(new."+f+", old."+f+") for "+sc.name, an.PathString(c.Pos, path))
				}
			}
			if !bad {
				c.R.OK(rule3, Fn(F)+":"+f+":"+sc.name, c.Pos(upd), "out[key]."+f+" >= "+sc.name+"'s "+f+" (raised on every path from the presence test to the update)")
			}
		}
	}
	// all stores to the record's fields are monotone (never lower a field after creation)
	nst := 0
	fns := []*ssa.Function{F}
	inFns := map[*ssa.Function]bool{F: true}
	for h := range raises {
		if !inFns[h] {
			inFns[h] = true
			fns = append(fns, h)
		}
	}
	// helpers of the command's own package that build or merge records on its behalf
	for _, h := range c.StaticReach(F, 2) {
		if h.Blocks != nil && prog.PkgPathOf(h) == prog.PkgPathOf(F) && !inFns[h] {
			inFns[h] = true
			fns = append(fns, h)
		}
	}
	for _, fn := range fns {
		for _, b := range fn.Blocks {
			for _, ins := range b.Instrs {
				obj, fld, st := spFieldStore(ins)
				if st == nil {
					continue
				}
				isTracked := false
				for _, f := range spFields {
					if f == fld {
						isTracked = true
					}
				}
				if !isTracked {
					continue
				}
				nst++
				if _, kind := raisingStore(fn, st, obj, fld); kind == "" {
					c.R.Fail(rule3, Fn(fn)+":store:"+fld, c.Pos(st), "a field of the record being merged is assigned without a comparison with its current value (it can move down)", "fields only rise: max(), or assignment below [current < new]", nil)
				}
			}
		}
	}
	c.R.Floor(rule3, "stores to protection record fields in the import", nst, 6)
	// ---- O4 parse: every number recorded from the file is a validated, non-negative parse result
	rule4 := "C10.O4 parse"
	np := 0
	ordinal := map[string]int{}
	for _, fn := range fns {
		if _, isRaise := raises[fn]; isRaise {
			continue
		}
		for _, b := range fn.Blocks {
			for _, ins := range b.Instrs {
				obj, fld, st := spFieldStore(ins)
				if st == nil {
					continue
				}
				_, kind := raisingStore(fn, st, obj, fld)
				val := st.Val
				switch kind {
				case "guarded":
				case "maxval":
					call := st.Val.(*ssa.Call)
					val = call.Call.Args[0]
					if o, _ := isSPFieldLoad(val); o != nil {
						val = call.Call.Args[1]
					}
				default:
					continue
				}
				np++
				ordinal[Fn(fn)+":"+fld]++
				okey := fmt.Sprintf("%s:%s#%d", Fn(fn), fld, ordinal[Fn(fn)+":"+fld])
				why, path := c.validatedNumber(val, fn, st, 0)
				if why != "" {
					c.R.Fail(rule4, okey, c.Pos(st), "the value recorded as "+fld+" "+why, "numbers from the file are used only below [parse err == nil] and proven to lie in [0, 2^63)", path)
				} else {
					c.R.OK(rule4, okey, c.Pos(st), "recorded value is a parse result used below [err == nil] and proven non-negative / within int64")
				}
			}
		}
	}
	c.R.Floor(rule4, "numbers recorded from the interchange file", np, 3)
	// ---- O5 rules-level import
	c.rulesLevelImport(prop, s)
}

// validatedNumber checks that v (used at instruction `at` in fn) is a decimal parse result that is known to have
// succeeded and to be in [0, 2^63). It returns "" if so, else a description (and a witness path).
func (c *Ctx) validatedNumber(v ssa.Value, fn *ssa.Function, at ssa.Instruction, depth int) (string, []string) {
	if depth > 3 {
		return "comes through too many helpers to validate", nil
	}
	needCut := func(from ssa.Instruction, acc func(a *an.Atom) bool, what string) (string, []string) {
		x, path := an.Cut(an.CutQuery{From: an.After(from), Target: func(i ssa.Instruction) bool { return i == at },
			AcceptEdge: func(b *ssa.BasicBlock, i int, a *an.Atom) bool { return acc(a) }})
		if x != nil {
			return what, an.PathString(c.Pos, path)
		}
		return "", nil
	}
	nonNeg := func(val ssa.Value) func(a *an.Atom) bool {
		return func(a *an.Atom) bool {
			if a == nil {
				return false
			}
			if a.Op == "<=" && an.IsConstInt(a.LV, 0) && a.RV == val {
				return true
			}
			if a.Op == "<" && an.IsConstInt(a.LV, -1) && a.RV == val {
				return true
			}
			return false
		}
	}
	// conversion int64 <- uint64 of an unsigned parse
	if cv, ok := v.(*ssa.Convert); ok {
		ex, ok := cv.X.(*ssa.Extract)
		if !ok {
			return "is a conversion of something that is not a parse result: " + an.Term(cv.X), nil
		}
		call, ok := ex.Tuple.(*ssa.Call)
		if !ok || call.Call.StaticCallee() == nil || call.Call.StaticCallee().String() != "strconv.ParseUint" {
			return "is a conversion of something that is not a parse result: " + an.Term(cv.X), nil
		}
		errs := map[ssa.Value]bool{}
		for _, e := range errValuesOfCall(call) {
			errs[e] = true
		}
		if w, p := needCut(call, func(a *an.Atom) bool { return errNilAtom(a, errs) }, "can be used although parsing failed"); w != "" {
			return w, p
		}
		if an.IsConstInt(call.Call.Args[2], 63) {
			return "", nil
		}
		// needs a bound: u <= MaxInt64
		return needCut(call, func(a *an.Atom) bool {
			if a == nil || a.LV != ssa.Value(ex) {
				return false
			}
			u, ok := an.ConstUint64(a.RV)
			return ok && ((a.Op == "<=" && u <= 1<<63-1) || (a.Op == "<" && u <= 1<<63))
		}, "is an unsigned 64-bit number narrowed to int64 without a bound: values >= 2^63 wrap to negative numbers (2^64-1 becomes the 'nothing recorded' marker -1) and the watermark is silently lost")
	}
	ex, ok := v.(*ssa.Extract)
	if !ok || ex.Index != 0 {
		return "is not a parse result: " + an.Term(v), nil
	}
	call, ok := ex.Tuple.(*ssa.Call)
	if !ok || call.Call.StaticCallee() == nil {
		return "is not a parse result: " + an.Term(v), nil
	}
	errs := map[ssa.Value]bool{}
	for _, e := range errValuesOfCall(call) {
		errs[e] = true
	}
	if w, p := needCut(call, func(a *an.Atom) bool { return errNilAtom(a, errs) }, "can be used although parsing failed"); w != "" {
		return w, p
	}
	callee := call.Call.StaticCallee()
	switch callee.String() {
	case "strconv.ParseInt":
		return needCut(call, nonNeg(ex), "can be negative; -1 is the marker for 'nothing recorded', so it forges absence and drops the value paired with it")
	case "strconv.ParseUint":
		return "is an unsigned parse result used as a signed number without conversion", nil
	}
	if prog.InModule(callee) && callee.Blocks != nil && callee.Signature.Results().Len() == 2 {
		// helper: every nil-error return must return a validated number
		for _, ret := range an.Returns(callee) {
			if !isNilConst(unwrapErr(an.Result(ret, 1))) {
				continue
			}
			if w, p := c.validatedNumber(an.Result(ret, 0), callee, ret, depth+1); w != "" {
				// a caller-side non-negativity test can still save a signed helper result
				if w2, _ := needCut(call, nonNeg(ex), "x"); w2 == "" && !strings.Contains(w, "narrowed") {
					continue
				}
				return "(through " + Fn(callee) + ") " + w, p
			}
		}
		return "", nil
	}
	return "is the result of " + Fn(callee) + ", not a validated parse", nil
}

func breaksToAny(l *Loop, targets []ssa.Instruction) bool {
	for _, e := range l.BreakEdges() {
		for _, t := range targets {
			if an.Reachable(an.Point{Block: e[1], Idx: 0}, t) {
				return true
			}
		}
	}
	return false
}

func breaksToSuccess(l *Loop, imp ssa.CallInstruction) bool {
	for _, e := range l.BreakEdges() {
		if an.Reachable(an.Point{Block: e[1], Idx: 0}, imp.(ssa.Instruction)) {
			return true
		}
	}
	return false
}

// raiseSummaries finds helpers raise(dst, src *SlashingProtection) and the fields they raise with max().
func (c *Ctx) raiseSummaries() map[*ssa.Function]map[string]bool {
	out := map[*ssa.Function]map[string]bool{}
	for _, fn := range c.P.ModuleFuncs() {
		if prog.IsTestish(prog.PkgPathOf(fn)) || fn.Blocks == nil || len(fn.Params) != 2 || len(fn.Blocks) != 1 {
			continue
		}
		if !namedIs(fn.Params[0].Type(), pkgRules, "SlashingProtection") || !namedIs(fn.Params[1].Type(), pkgRules, "SlashingProtection") {
			continue
		}
		fields := map[string]bool{}
		okAll := true
		for _, ins := range fn.Blocks[0].Instrs {
			obj, fld, st := spFieldStore(ins)
			if st == nil {
				continue
			}
			if obj != ssa.Value(fn.Params[0]) {
				okAll = false
				continue
			}
			if sv, kind := raisingStore(fn, st, obj, fld); kind == "max" && sv == ssa.Value(fn.Params[1]) {
				fields[fld] = true
			} else {
				okAll = false
			}
		}
		if okAll && len(fields) > 0 {
			out[fn] = fields
		}
	}
	return out
}

// rulesLevelImport: C10.O5 - every supplied field that is not -1 is stored under the matching action with the same encoder.
func (c *Ctx) rulesLevelImport(prop string, s *Slashing) {
	rule := "C10.O5 rules-level"
	F := s.ImportFn
	type want struct {
		kind   string
		state  *types.Named
		fields map[string]string // state field <- SlashingProtection field
	}
	wants := []want{
		{"att", s.AttState, map[string]string{s.AttSourceField: "HighestAttestedSourceEpoch", s.AttTargetField: "HighestAttestedTargetEpoch"}},
		{"prop", s.PropState, map[string]string{s.PropSlotField: "HighestProposedSlot"}},
	}
	// the per-entry body may live in a package helper called once per entry from the import's loop: `importEntry(ctx, key, entry)`.
	// The helper is then the scope of the per-entry obligations (an iteration = one call, ending at its nil-error return), and
	// the import must return the helper's error.
	E := F // the entry point, for the obligations on the loop
	reachesStore := func(f *ssa.Function) int {
		n := 0
		for _, g := range c.StaticReach(f, 2) {
			n += len(Calls(g, func(c2 ssa.CallInstruction) bool { return c2.Common().StaticCallee() == s.StoreStore }))
		}
		return n
	}
	if len(Calls(F, func(ci ssa.CallInstruction) bool { return ci.Common().StaticCallee() == s.StoreStore })) == 0 {
		var perEntry []ssa.CallInstruction
		for _, ci := range Calls(F, func(ci ssa.CallInstruction) bool {
			f := ci.Common().StaticCallee()
			return f != nil && prog.PkgPathOf(f) == s.Pkg.Pkg.Path() && f.Blocks != nil && f != F && !ci.Common().IsInvoke() && errResultIndex(f) >= 0 && reachesStore(f) >= 1
		}) {
			perEntry = append(perEntry, ci)
		}
		if len(perEntry) == 1 {
			K := perEntry[0]
			var eloop *rangeIterLoop
			for _, l := range findRangeIterLoops(E) {
				eloop = l
			}
			okLoop := eloop != nil && an.Reachable(an.Point{Block: eloop.Body, Idx: 0}, K.(ssa.Instruction))
			if okLoop {
				// every iteration calls the helper, and its error ends the import
				hdr := eloop.Header
				if x, _ := an.Cut(an.CutQuery{From: an.Point{Block: eloop.Body, Idx: 0}, Target: func(i ssa.Instruction) bool { return i == hdr.Instrs[0] },
					AcceptInstr: func(i ssa.Instruction) bool { return i == K.(ssa.Instruction) }}); x != nil {
					c.R.Fail(rule, Fn(E)+":per-entry", c.Pos(K), "an entry of the import can be skipped without the per-entry helper being called", "helper(entry) for every entry", nil)
				}
				errs := map[ssa.Value]bool{}
				for _, e := range errValuesOfCall(K) {
					errs[e] = true
				}
				if x, _ := an.Cut(an.CutQuery{From: an.After(K.(ssa.Instruction)), Target: func(i ssa.Instruction) bool { return i == hdr.Instrs[0] || isNilReturn(i, E) },
					AcceptEdge: func(b *ssa.BasicBlock, i int, a *an.Atom) bool { return errNilAtom(a, errs) }}); x != nil {
					c.R.Fail(rule, Fn(E)+":per-entry:error", c.Pos(K), "a failed per-entry import does not fail the import", "helper error returned", nil)
				}
				F = K.Common().StaticCallee()
			}
		}
	}
	// store sites: direct calls of the store's Store, or calls of a package helper that wraps exactly one such call
	// (value and action passed as parameters, nil error only if that Store succeeded)
	type storeSite struct {
		ci       ssa.CallInstruction // the call in F
		val      ssa.Value           // the value stored, in F's frame
		helper   *ssa.Function       // nil for a direct call
		helperAc ssa.Value           // action value set into key[48] inside the helper, in F's frame (nil if none)
	}
	var sites []storeSite
	for _, ci := range Calls(F, func(ci ssa.CallInstruction) bool {
		f := ci.Common().StaticCallee()
		return f != nil && (f == s.StoreStore || (prog.PkgPathOf(f) == s.Pkg.Pkg.Path() && f.Blocks != nil && f != F))
	}) {
		f := ci.Common().StaticCallee()
		if f == s.StoreStore {
			sites = append(sites, storeSite{ci: ci, val: ci.Common().Args[3]})
			continue
		}
		hs := Calls(f, func(c2 ssa.CallInstruction) bool { return c2.Common().StaticCallee() == s.StoreStore })
		if len(hs) == 0 {
			continue
		}
		if len(hs) != 1 {
			c.R.Unknown(rule, Fn(f), c.Pos(ci), "an import helper calls the store more than once")
			continue
		}
		hst := hs[0]
		argOf := func(v ssa.Value) ssa.Value {
			if q, ok := v.(*ssa.Parameter); ok {
				for i, qq := range f.Params {
					if qq == q && i < len(ci.Common().Args) {
						return ci.Common().Args[i]
					}
				}
			}
			return nil
		}
		val := argOf(hst.Common().Args[3])
		if val == nil {
			c.R.Unknown(rule, Fn(f), c.Pos(hst), "the import helper does not store its own value parameter")
			continue
		}
		if esc, _ := NilErrorNeeds(f, func(c2 ssa.CallInstruction) bool { return c2 == hst }); len(esc) > 0 {
			c.R.Fail(rule, Fn(f)+":error", c.Pos(esc[0].Ret), "the import helper "+esc[0].Why+" although the store failed", "nil error only if Store succeeded", an.PathString(c.Pos, esc[0].Path))
			continue
		}
		st := storeSite{ci: ci, val: val, helper: f}
		// key[48] = action[0] inside the helper, on the array whose slice is stored under
		keyBase := sliceRoot(hst.Common().Args[2])
		n48 := 0
		for _, b := range f.Blocks {
			for _, ins := range b.Instrs {
				s2, ok := ins.(*ssa.Store)
				if !ok {
					continue
				}
				ia, ok := s2.Addr.(*ssa.IndexAddr)
				if !ok {
					continue
				}
				if iv, ok := constIntOf(ia.Index); !ok || iv != 48 {
					continue
				}
				n48++
				placed := ia.X == keyBase && (s2.Block() == hst.Block() || an.Reachable(an.After(s2), hst.(ssa.Instruction)))
				// the action byte itself may be the helper's parameter: helper(..., action[0], ...)
				if a := argOf(s2.Val); a != nil && placed {
					if root, idx, ok := elemLoadAny(a); ok && an.IsConstInt(idx, 0) {
						st.helperAc = root
					}
					continue
				}
				root, idx, ok := elemLoadAny(s2.Val)
				if !ok || !an.IsConstInt(idx, 0) || !placed {
					continue
				}
				if a := argOf(root); a != nil {
					st.helperAc = a
				} else {
					st.helperAc = root
				}
			}
		}
		if n48 > 1 {
			st.helperAc = nil
		}
		sites = append(sites, st)
	}
	var stores []ssa.CallInstruction
	for _, st := range sites {
		stores = append(stores, st.ci)
	}
	siteOf := func(ci ssa.CallInstruction) storeSite {
		for _, st := range sites {
			if st.ci == ci {
				return st
			}
		}
		return storeSite{}
	}
	c.R.Floor(rule, "store calls in the rules-level import", len(stores), 2)
	// action globals by kind
	actionOf := map[string]*ssa.Global{}
	for _, w := range wants {
		for _, fh := range c.fetchHelpers(s, w.state) {
			if _, g, why := c.fetchKey(s, fh); why == "" {
				actionOf[w.kind] = g
			}
		}
	}
	var loop *rangeIterLoop
	for _, l := range findRangeIterLoops(F) {
		loop = l
	}
	// iteration scope: the loop body up to the header, or (per-entry helper) the helper's body up to its nil-error return
	iterFrom := an.Entry(F)
	iterEnd := func(i ssa.Instruction) bool { return isNilReturn(i, F) }
	haveIter := F != E
	if F == E && loop != nil {
		hdr := loop.Header
		iterFrom = an.Point{Block: loop.Body, Idx: 0}
		iterEnd = func(i ssa.Instruction) bool { return i == hdr.Instrs[0] }
		haveIter = true
	}
	for _, w := range wants {
		var st ssa.CallInstruction
		for _, ci := range stores {
			if call, ok := siteOf(ci).val.(*ssa.Call); ok {
				if f := call.Call.StaticCallee(); f != nil && f.Signature.Recv() != nil && namedOf(f.Signature.Recv().Type()) == w.state {
					st = ci
				}
			}
		}
		if st == nil {
			c.R.Fail(rule, Fn(F)+":"+w.kind, c.P.FuncPos(F), "the import does not store "+w.kind+" records with the record encoder", "Store(key, state.Encode())", nil)
			continue
		}
		enc := siteOf(st).val.(*ssa.Call)
		obj, _ := enc.Call.Args[0].(*ssa.Alloc)
		if obj == nil {
			c.R.Unknown(rule, Fn(F)+":"+w.kind, c.Pos(st), "the state encoded is not a fresh object")
			continue
		}
		// field fill
		got := map[string]string{}
		for _, r := range *obj.Referrers() {
			fa, ok := r.(*ssa.FieldAddr)
			if !ok {
				continue
			}
			for _, r2 := range *fa.Referrers() {
				if s2, ok := r2.(*ssa.Store); ok {
					_, f := isSPFieldLoad(s2.Val)
					got[fieldNameOf(fa)] = f
				}
			}
		}
		bad := false
		for sf, pf := range w.fields {
			if got[sf] != pf {
				bad = true
				c.R.Fail(rule, Fn(F)+":"+w.kind+":"+sf, c.Pos(st), fmt.Sprintf("state field %s is imported from %q, expected %q", sf, got[sf], pf), "each state field from the interchange value of the same meaning", nil)
			}
		}
		// key byte 48 = action[0] of the matching kind, stored before the Store call on the path
		okKey := false
		if site := siteOf(st); site.helper != nil {
			// the helper sets the action byte itself, from the action value it is given (or a fixed one)
			okKey = site.helperAc != nil && isLoadOfGlobal(site.helperAc, actionOf[w.kind])
		}
		for _, b := range F.Blocks {
			if siteOf(st).helper != nil {
				break
			}
			for _, ins := range b.Instrs {
				s2, ok := ins.(*ssa.Store)
				if !ok {
					continue
				}
				ia, ok := s2.Addr.(*ssa.IndexAddr)
				if !ok {
					continue
				}
				if iv, ok := constIntOf(ia.Index); !ok || iv != 48 {
					continue
				}
				root, idx, ok := elemLoadAny(s2.Val)
				if ok && isLoadOfGlobal(root, actionOf[w.kind]) && an.IsConstInt(idx, 0) {
					// this store must precede the Store call with no other key[48] store in between
					if s2.Block() == st.Block() || an.Reachable(an.After(s2), st.(ssa.Instruction)) {
						between := false
						for _, b2 := range F.Blocks {
							for _, i2 := range b2.Instrs {
								s3, ok := i2.(*ssa.Store)
								if !ok || s3 == s2 {
									continue
								}
								if ia3, ok := s3.Addr.(*ssa.IndexAddr); ok && ia3.X == ia.X {
									if iv3, ok := constIntOf(ia3.Index); ok && iv3 == 48 {
										if an.Reachable(an.After(s2), s3) && an.Reachable(an.After(s3), st.(ssa.Instruction)) && s3.Block() == st.Block() {
											between = true
										}
									}
								}
							}
						}
						if !between {
							okKey = true
						}
					}
				}
			}
		}
		if !okKey {
			bad = true
			c.R.Fail(rule, Fn(F)+":"+w.kind+":key", c.Pos(st), "the "+w.kind+" record is stored under an action byte other than the one the rules read it under", "key[48] = "+actionName(actionOf[w.kind])+"[0]", nil)
		}
		// stored exactly when the guarding field is not -1: within an iteration the store is skipped only via [field == -1]
		if haveIter {
			x, path := an.Cut(an.CutQuery{From: iterFrom, Target: iterEnd,
				AcceptInstr: func(i ssa.Instruction) bool { return i == st.(ssa.Instruction) },
				AcceptEdge: func(b *ssa.BasicBlock, i int, a *an.Atom) bool {
					if a == nil || a.Op != "==" {
						return false
					}
					for _, side := range [][2]ssa.Value{{a.LV, a.RV}, {a.RV, a.LV}} {
						_, f := isSPFieldLoad(side[0])
						if an.IsConstInt(side[1], -1) {
							for _, pf := range w.fields {
								if pf == f {
									return true
								}
							}
						}
					}
					return false
				}})
			if x != nil {
				bad = true
				c.R.Fail(rule, Fn(F)+":"+w.kind+":skip", c.Pos(st), "a supplied "+w.kind+" value other than -1 can be left unstored while the import continues", "skip exactly the value -1", an.PathString(c.Pos, path))
			}
		}
		// error of the store is returned
		errs := map[ssa.Value]bool{}
		for _, e := range errValuesOfCall(st) {
			errs[e] = true
		}
		if haveIter {
			if x, _ := an.Cut(an.CutQuery{From: an.After(st), Target: func(i ssa.Instruction) bool { return iterEnd(i) || isNilReturn(i, F) },
				AcceptEdge: func(b *ssa.BasicBlock, i int, a *an.Atom) bool { return errNilAtom(a, errs) }}); x != nil {
				bad = true
				c.R.Fail(rule, Fn(F)+":"+w.kind+":error", c.Pos(st), "a failed store does not fail the import", "store error returned", nil)
			}
		}
		if !bad {
			var fs []string
			for sf, pf := range w.fields {
				fs = append(fs, sf+"<-"+pf)
			}
			sort.Strings(fs)
			c.R.OK(rule, Fn(F)+":"+w.kind, c.Pos(st), "stored under "+actionName(actionOf[w.kind])+" with the record encoder; "+strings.Join(fs, ", ")+"; skipped only for -1; store errors returned")
		}
	}
}

func actionName(g *ssa.Global) string {
	if g == nil {
		return "?"
	}
	return g.Name()
}

func isNilReturn(i ssa.Instruction, fn *ssa.Function) bool {
	ret, ok := i.(*ssa.Return)
	if !ok {
		return false
	}
	k := errResultIndex(fn)
	return k >= 0 && isNilConst(unwrapErr(an.Result(ret, k)))
}

func init() {
	register(&Spec{
		ID: "C10",
		Run: func(c *Ctx) {
			c.ImportRules("C10")
			c.DecodeFreshTarget("C11")
			c.SameStore("C10")
			c.SyncOption("C03") // the import is synchronous, on disk, and exclusive: the directory lock keeps it away from a live server's store
			if s := c.Slashing("C10.anchors"); s.OK() {
				c.EncodeDecodeAgreement("C10", s, s.AttState, map[string]bool{"SourceEpoch": true, "TargetEpoch": true})
				c.EncodeDecodeAgreement("C10", s, s.PropState, map[string]bool{"Slot": true})
				c.WhoWrites("C10")
				// an imported record protects only if the rules compare requests with it: the watermark guards of both rules
				c.WatermarkGuards("C10", s, "att")
				c.WatermarkGuards("C10", s, "prop")
				c.StateStoreDiscipline("C10", s, "att")
				c.StateStoreDiscipline("C10", s, "prop")
				c.BadgerBufferDiscipline("C11") // the import compares against records read through FetchAll
			}
			// ... and only if the rules are asked about the key the signature is made with (an imported record for K does not
			// protect K when the rules look a request up under another byte string)
			c.SigningRootProvenance("C10")
		},
		Explanation: "The import command opens and writes the store only below [version == \"5\"], [configured root set] and [configured root == file root]; every entry of the file reaches the outgoing map or fails the import; the record written for a key is raised, field by field, to at least the existing database record and any earlier entry for the key (all stores to the record are monotone); numbers are used only below [err == nil] and [value >= 0]; the rules-level import stores every value other than -1 under the action the rules read it under, with the same encoder, and returns store errors. See DESIGN.md §5 C10.",
		Trusted:     append([]string{"JSON decoding", "what other clients put in interchange files"}, commonTrusted...),
	})
}
