// Package report collects obligations and writes evidence / replay files.
package report

import (
	"bufio"
	"encoding/json"
	"fmt"
	"os"
	"path/filepath"
	"sort"
	"strings"
)

// Status of an obligation.
const (
	Discharged = "discharged"
	Violated   = "violated"
	Undecided  = "undecided"
)

// Obligation is one decided structural obligation.
type Obligation struct {
	Property  string   `json:"property"`
	Rule      string   `json:"rule"`      // e.g. "C01.O2 guard.target"
	Construct string   `json:"construct"` // function / callee / atom it is about (position-free key)
	Status    string   `json:"status"`
	Pos       string   `json:"pos,omitempty"`
	Detail    string   `json:"detail,omitempty"`
	Witness   []string `json:"witness,omitempty"`
	Expected  string   `json:"expected,omitempty"`
	Kind      string   `json:"kind,omitempty"` // violation | undecided | anchor | floor | load | selftest
}

// Key is the rule+construct key used for known-finding matching.
func (o *Obligation) Key() string { return o.Rule + "@" + o.Construct }

// Collector gathers obligations for one property run.
type Collector struct {
	Property string
	Obls     []*Obligation
	Counts   map[string]int // measured counters (functions analysed, call sites, ...)
	Notes    []string
}

// New creates a collector.
func New(property string) *Collector {
	return &Collector{Property: property, Counts: map[string]int{}}
}

func (c *Collector) add(o *Obligation) *Obligation {
	o.Property = c.Property
	c.Obls = append(c.Obls, o)
	return o
}

// OK records a discharged obligation.
func (c *Collector) OK(rule, construct, pos, detail string) {
	c.add(&Obligation{Rule: rule, Construct: construct, Status: Discharged, Pos: pos, Detail: detail})
}

// Fail records a violated obligation.
func (c *Collector) Fail(rule, construct, pos, detail, expected string, witness []string) {
	c.add(&Obligation{Rule: rule, Construct: construct, Status: Violated, Pos: pos, Detail: detail, Expected: expected, Witness: witness, Kind: "violation"})
}

// Unknown records an undecided obligation (counts as failure).
func (c *Collector) Unknown(rule, construct, pos, detail string) {
	c.add(&Obligation{Rule: rule, Construct: construct, Status: Undecided, Pos: pos, Detail: detail, Kind: "undecided"})
}

// Anchor records a failure to resolve a role.
func (c *Collector) Anchor(rule, construct, detail string) {
	c.add(&Obligation{Rule: rule, Construct: construct, Status: Undecided, Detail: detail, Kind: "anchor"})
}

// Floor checks that a rule matched at least want instances.
func (c *Collector) Floor(rule string, what string, got, want int) {
	c.Counts["instances:"+rule+":"+what] = got
	if got < want {
		c.add(&Obligation{Rule: rule, Construct: "floor:" + what, Status: Undecided, Kind: "floor",
			Detail: fmt.Sprintf("rule matched %d instances of %s, floor confirmed by hand is %d: the rule has lost its subject", got, what, want)})
	} else {
		c.add(&Obligation{Rule: rule, Construct: "floor:" + what, Status: Discharged,
			Detail: fmt.Sprintf("%d instances of %s (floor %d)", got, what, want)})
	}
}

// Count bumps a measured counter.
func (c *Collector) Count(name string, n int) { c.Counts[name] += n }

// Finding is one line of known-findings.txt of kind "finding:".
type Finding struct {
	Property string
	Key      string
	Text     string
}

// LoadKnown parses the known-findings file.
func LoadKnown(path string) ([]Finding, []string, error) {
	f, err := os.Open(path)
	if err != nil {
		if os.IsNotExist(err) {
			return nil, nil, nil
		}
		return nil, nil, err
	}
	defer f.Close()
	var out []Finding
	var fixed []string
	sc := bufio.NewScanner(f)
	for sc.Scan() {
		line := strings.TrimSpace(sc.Text())
		if line == "" || strings.HasPrefix(line, "#") {
			continue
		}
		if strings.HasPrefix(line, "fixed:") {
			fixed = append(fixed, line)
			continue
		}
		if strings.HasPrefix(line, "finding:") {
			rest := strings.TrimSpace(strings.TrimPrefix(line, "finding:"))
			fd := Finding{Text: rest}
			for _, tok := range strings.Fields(rest) {
				if strings.HasPrefix(tok, "property=") {
					fd.Property = strings.TrimPrefix(tok, "property=")
				}
			}
			if i := strings.Index(rest, "obligation="); i >= 0 {
				r := rest[i+len("obligation="):]
				// key is quoted or up to first space
				if strings.HasPrefix(r, "\"") {
					if j := strings.Index(r[1:], "\""); j >= 0 {
						fd.Key = r[1 : 1+j]
					}
				} else if j := strings.IndexByte(r, ' '); j >= 0 {
					fd.Key = r[:j]
				} else {
					fd.Key = r
				}
			}
			out = append(out, fd)
		}
	}
	return out, fixed, sc.Err()
}

// Evidence is the evidence file format (EVIDENCE.schema.json, level other).
type Evidence struct {
	PropertyID  string         `json:"property_id"`
	Tier        string         `json:"tier"`
	Seed        int            `json:"seed"`
	Level       string         `json:"level"`
	Coverage    map[string]any `json:"coverage"`
	Assumptions []string       `json:"assumptions"`
	WallS       float64        `json:"wall_s"`
	Violations  int            `json:"violations"`
}

// Finish writes evidence and replay files, prints VIOLATION / KNOWN-FINDING lines and returns the exit code.
func (c *Collector) Finish(outDir string, tier string, seed int, wall float64, explanation string, trusted []string, assumptions []string, extra map[string]any, known []Finding) int {
	sort.SliceStable(c.Obls, func(i, j int) bool {
		if c.Obls[i].Rule != c.Obls[j].Rule {
			return c.Obls[i].Rule < c.Obls[j].Rule
		}
		return c.Obls[i].Construct < c.Obls[j].Construct
	})
	nDis, nVio, nUnd := 0, 0, 0
	var bad []*Obligation
	var knownHit []*Obligation
	for _, o := range c.Obls {
		switch o.Status {
		case Discharged:
			nDis++
		case Violated, Undecided:
			isKnown := false
			for _, k := range known {
				if k.Property == c.Property && k.Key == o.Key() {
					isKnown = true
				}
			}
			if isKnown {
				knownHit = append(knownHit, o)
			} else {
				bad = append(bad, o)
			}
			if o.Status == Violated {
				nVio++
			} else {
				nUnd++
			}
		}
	}
	_ = os.MkdirAll(filepath.Join(outDir, "replay"), 0o755)
	// remove stale replay files of this property
	if old, _ := filepath.Glob(filepath.Join(outDir, "replay", c.Property+"-*.json")); old != nil {
		for _, f := range old {
			_ = os.Remove(f)
		}
	}
	samples := make([]any, 0, len(c.Obls))
	for _, o := range c.Obls {
		samples = append(samples, o)
	}
	rules := map[string]int{}
	for _, o := range c.Obls {
		rules[o.Rule]++
	}
	cov := map[string]any{
		"explanation":         explanation,
		"obligations":         len(c.Obls),
		"discharged":          nDis,
		"violated":            nVio,
		"undecided":           nUnd,
		"known_findings":      len(knownHit),
		"samples":             samples,
		"rules":               rules,
		"counts":              c.Counts,
		"trusted_base":        trusted,
		"checker_cmd":         strings.Join(os.Args, " "),
		"notes":               c.Notes,
		"evaluations":         len(c.Obls),
		"distinct_nontrivial": len(rules),
		"rule":                "one evaluation per (rule, construct) obligation resolved from the current source; distinct_nontrivial counts distinct rules with at least one instance",
	}
	for k, v := range extra {
		cov[k] = v
	}
	if assumptions == nil {
		assumptions = append([]string{}, trusted...)
	}
	if c.Notes == nil {
		cov["notes"] = []string{}
	}
	ev := Evidence{PropertyID: c.Property, Tier: tier, Seed: seed, Level: "other", Coverage: cov,
		Assumptions: assumptions, WallS: wall, Violations: len(bad)}
	data, _ := json.MarshalIndent(ev, "", " ")
	_ = os.WriteFile(filepath.Join(outDir, c.Property+".json"), data, 0o644)

	for _, o := range knownHit {
		fmt.Printf("KNOWN-FINDING: property=%s %s: %s\n", c.Property, o.Key(), o.Detail)
	}
	for i, o := range bad {
		rp := filepath.Join(outDir, "replay", fmt.Sprintf("%s-%d.json", c.Property, i+1))
		d, _ := json.MarshalIndent(o, "", " ")
		_ = os.WriteFile(rp, d, 0o644)
		fmt.Printf("  %s %s [%s] %s\n    at %s\n    %s\n", strings.ToUpper(o.Status), o.Rule, o.Construct, o.Kind, o.Pos, o.Detail)
		if o.Expected != "" {
			fmt.Printf("    expected: %s\n", o.Expected)
		}
		for _, w := range o.Witness {
			fmt.Printf("      via %s\n", w)
		}
		fmt.Printf("VIOLATION property=%s replay=%s\n", c.Property, rp)
	}
	fmt.Printf("%s %s: %d obligations, %d discharged, %d violated, %d undecided, %d known findings (%.1fs)\n",
		c.Property, tier, len(c.Obls), nDis, nVio, nUnd, len(knownHit), wall)
	if len(bad) > 0 {
		return 1
	}
	return 0
}
