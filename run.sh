#!/bin/sh
# usage: ./run.sh <property> <quick|thorough>
# Decides the structural obligations of one property on /repo's current working tree (static analysis only).
set -u
cd "$(dirname "$0")"
VERIF=$(pwd)
PROP=$1
TIER=${2:-${VERIF_TIER:-quick}}
export GOFLAGS=-mod=mod GOPROXY=off GOSUMDB=off GOTOOLCHAIN=local
unset GOWORK
REPO=${REPO:-/repo}
if [ ! -x "$VERIF/bin/dirkcheck" ] || [ -n "$(find "$VERIF/checker" -name '*.go' -newer "$VERIF/bin/dirkcheck" 2>/dev/null | head -1)" ]; then
  (cd "$VERIF/checker" && go build -o "$VERIF/bin/dirkcheck" ./cmd/dirkcheck) || { echo "VIOLATION property=$PROP replay=/dev/null (checker build failed)"; exit 1; }
fi
mkdir -p "$VERIF/evidence"
if [ "$TIER" = "thorough" ]; then
  exec python3 "$VERIF/tools/thorough.py" "$PROP"
fi
exec "$VERIF/bin/dirkcheck" -property "$PROP" -tier quick -repo "$REPO" -out "$VERIF/evidence" -known "$VERIF/known-findings.txt"
