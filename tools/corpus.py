#!/usr/bin/env python3
"""Replay the mutant / variant corpus against scratch copies of /repo's current tree.

Every patch under /verif/mutants/<id>/ must be flagged by the checker of property <id> (and the violated
obligations must include the rule named in the patch's '# expect:' header); every patch under
/verif/variants/<id>/ (behaviour-preserving refactorings) must leave the checker silent.

usage: corpus.py [--property C01[,C02..]] [--kind mutants|variants|both] [-j N] [--json out.json] [--keep]
Exit status 0 always reflects the corpus *run*; weaknesses are listed (SELFTEST-WEAK) and returned in JSON.
"""
import argparse, json, os, shutil, subprocess, sys, tempfile, glob, concurrent.futures, time

VERIF = os.path.dirname(os.path.dirname(os.path.abspath(__file__)))
REPO = os.environ.get('REPO', '/repo')
BIN = os.path.join(VERIF, 'bin', 'dirkcheck')
ENV = dict(os.environ, GOFLAGS='-mod=mod', GOPROXY='off', GOSUMDB='off', GOTOOLCHAIN='local')
ENV.pop('GOWORK', None)

def header(path):
    h = {}
    for line in open(path):
        if not line.startswith('#'):
            break
        if ':' in line:
            k, v = line[1:].split(':', 1)
            h[k.strip()] = v.strip()
    return h

def run_one(kind, prop, patch, keep=False, build=True, check=None):
    t0 = time.time()
    h = header(patch)
    scratch = tempfile.mkdtemp(prefix='dirkmut.', dir=os.environ.get('SCRATCH', '/tmp'))
    res = {'kind': kind, 'property': prop, 'patch': os.path.relpath(patch, VERIF), 'expect': h.get('expect', '-'), 'description': h.get('description', '')}
    try:
        tree = os.path.join(scratch, 'repo')
        subprocess.run(['rsync', '-a', '--exclude', '.git', '--exclude', '/dirk', REPO + '/', tree + '/'], check=True)
        if h.get('base'):
            # the patch applies on top of another corpus patch (a mutant of a refactored tree)
            pb = subprocess.run(['patch', '-p1', '-s', '--no-backup-if-mismatch', '-i', os.path.join(VERIF, h['base'])], cwd=tree, capture_output=True, text=True)
            if pb.returncode != 0:
                res.update(status='patch-failed', detail='base: ' + (pb.stdout + pb.stderr)[-400:])
                return res
        p = subprocess.run(['patch', '-p1', '-s', '--no-backup-if-mismatch', '-i', patch], cwd=tree, capture_output=True, text=True)
        if p.returncode != 0:
            res.update(status='patch-failed', detail=(p.stdout + p.stderr)[-400:])
            return res
        if build:
            b = subprocess.run(['go', 'build', './...'], cwd=tree, env=ENV, capture_output=True, text=True)
            if b.returncode != 0:
                res.update(status='does-not-compile', detail=(b.stdout + b.stderr)[-600:])
                return res
        ev = os.path.join(scratch, 'ev')
        os.makedirs(ev)
        props = check or h.get('check', 'all' if kind == 'variants' else prop)
        c = subprocess.run([BIN, '-property', props, '-repo', tree, '-out', ev, '-known', '/dev/null', '-tier', 'quick'], env=ENV, capture_output=True, text=True)
        violated = []
        kinds = set()
        for f in glob.glob(os.path.join(ev, 'replay', '*.json')):
            o = json.load(open(f))
            violated.append(o['rule'] + '@' + o['construct'])
            kinds.add(o.get('kind', ''))
        res['exit'] = c.returncode
        res['violated'] = sorted(violated)
        if kind == 'mutants':
            exp = h.get('expect', '-')
            hit = [v for v in violated if exp == '-' or any(v.startswith(e.strip()) for e in exp.split('|'))]
            if c.returncode == 1 and hit:
                res['status'] = 'killed'
            elif c.returncode == 1:
                res['status'] = 'killed-other-rule'
            elif c.returncode == 0:
                res['status'] = 'SURVIVED'
            else:
                res['status'] = 'checker-error'
                res['detail'] = (c.stdout + c.stderr)[-600:]
        else:
            if c.returncode == 0:
                res['status'] = 'silent'
            elif c.returncode == 1:
                res['status'] = 'FALSE-ALARM'
                res['detail'] = c.stdout[-1500:]
            else:
                res['status'] = 'checker-error'
                res['detail'] = (c.stdout + c.stderr)[-600:]
        return res
    finally:
        res['wall_s'] = round(time.time() - t0, 1)
        if not keep:
            shutil.rmtree(scratch, ignore_errors=True)

def main():
    ap = argparse.ArgumentParser()
    ap.add_argument('--property', default='')
    ap.add_argument('--kind', default='both')
    ap.add_argument('-j', type=int, default=4)
    ap.add_argument('--json', default='')
    ap.add_argument('--keep', action='store_true')
    ap.add_argument('--name', default='')
    a = ap.parse_args()
    props = [p for p in a.property.split(',') if p]
    jobs = []
    for kind in ('mutants', 'variants'):
        if a.kind not in (kind, 'both', 'all'):
            continue
        for d in sorted(glob.glob(os.path.join(VERIF, kind, '*'))):
            prop = os.path.basename(d)
            if props and prop not in props and not (kind == 'variants' and prop == 'indep'):
                continue
            for patch in sorted(glob.glob(os.path.join(d, '*.patch'))):
                if a.name and not any(n in os.path.basename(patch) for n in a.name.split(',')):
                    continue
                # independent refactorings are replayed for whichever properties were asked for
                jobs.append((kind, prop, patch, ','.join(props) if (props and prop == 'indep') else None))
    if a.kind in ('seeded', 'all'):
        for d in sorted(glob.glob(os.path.join(VERIF, 'seeded', '*'))):
            prop = os.path.basename(d).split('-')[0]   # seeded/C07-2 is a second change for C07
            if props and prop not in props:
                continue
            patch = os.path.join(d, 'patch.diff')
            if a.name and os.path.basename(d) not in a.name.split(','):
                continue
            if os.path.exists(patch):
                jobs.append(('mutants', prop, patch, None))
    results = []
    with concurrent.futures.ThreadPoolExecutor(max_workers=a.j) as ex:
        futs = [ex.submit(run_one, k, p, f, a.keep, True, chk) for (k, p, f, chk) in jobs]
        for f in futs:
            r = f.result()
            results.append(r)
            flag = ''
            if r['status'] in ('SURVIVED', 'FALSE-ALARM', 'patch-failed', 'does-not-compile', 'checker-error'):
                flag = 'SELFTEST-WEAK '
            print(f"{flag}{r['kind'][:-1]} {r['patch']}: {r['status']} (expect {r['expect']}; got {', '.join(r.get('violated', [])[:4])}) {r.get('wall_s')}s", flush=True)
            if r.get('detail') and flag:
                print('   ', r['detail'].replace('\n', '\n    '))
    summary = {
        'mutants_total': sum(1 for r in results if r['kind'] == 'mutants'),
        'mutants_killed': sum(1 for r in results if r['status'] == 'killed'),
        'mutants_killed_other_rule': sum(1 for r in results if r['status'] == 'killed-other-rule'),
        'mutants_survived': [r['patch'] for r in results if r['status'] == 'SURVIVED'],
        'variants_total': sum(1 for r in results if r['kind'] == 'variants'),
        'variants_silent': sum(1 for r in results if r['status'] == 'silent'),
        'variants_false_alarm': [r['patch'] for r in results if r['status'] == 'FALSE-ALARM'],
        'broken': [r['patch'] for r in results if r['status'] in ('patch-failed', 'does-not-compile', 'checker-error')],
        'results': results,
    }
    if a.json:
        json.dump(summary, open(a.json, 'w'), indent=1)
    print(json.dumps({k: v for k, v in summary.items() if k != 'results'}))

main()
