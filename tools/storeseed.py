#!/usr/bin/env python3
"""Store an independently produced breaking change under /verif/seeded/<id>/ (patch.diff, demo files, AGENT_README.md, meta.json).
usage: storeseed.py <id> <property> <worktree> <demo_cmd> <needs> <caught_by ;-separated> <remarks> <demo file in tree>..."""
import sys, os, shutil, json, subprocess
sid, prop, wt, cmd, needs, caught, remarks = sys.argv[1:8]
demos = sys.argv[8:]
d = os.path.join('/verif/seeded', sid)
os.makedirs(d, exist_ok=True)
patch = subprocess.run(['git', '-C', wt, 'diff'], capture_output=True, text=True).stdout
# new (untracked) source files are not in `git diff`: prefer the agent's own patch.diff when it names more files
agent_patch = os.path.join(wt, 'seed', 'patch.diff')
if os.path.exists(agent_patch):
    ap = open(agent_patch).read()
    import re
    if set(re.findall(r'^\+\+\+ b/(\S+)', ap, re.M)) > set(re.findall(r'^\+\+\+ b/(\S+)', patch, re.M)):
        patch = ap
open(os.path.join(d, 'patch.diff'), 'w').write(patch)
for f in demos:
    shutil.copy(os.path.join(wt, f), os.path.join(d, os.path.basename(f)))
for name in ('README.md',):
    src = os.path.join(wt, 'seed', name)
    if os.path.exists(src):
        shutil.copy(src, os.path.join(d, 'AGENT_README.md'))
meta = {
    'property': prop,
    'round': int(os.environ.get('ROUND', '2')),
    'source': 'independent sub-agent given only the property text (and a note on the changes of earlier rounds to avoid) and a scratch worktree',
    'needs_to_manifest': needs,
    'demo_files': [os.path.basename(f) for f in demos],
    'demo_place_at': demos,
    'demo_cmd': cmd,
    'confirmed_by_me': {
        'compiles': 'go build ./... in the worktree with the patch: ok',
        'suite_with_patch': 'go test -vet=off -count=1 ./... : only the baseline failure rules/standard TestRules',
        'demo_with_patch': 'FAIL', 'demo_without_patch': 'ok',
        'commands': ['tools/seedverify.sh <worktree> <pattern> <pkg>', '/verif/bin/dirkcheck -property all -repo <worktree> -known /dev/null'],
    },
    'caught_by': [c.strip() for c in caught.split(';') if c.strip()],
    'remarks': remarks,
}
json.dump(meta, open(os.path.join(d, 'meta.json'), 'w'), indent=1)
print('stored', d, len(patch.splitlines()), 'patch lines')
