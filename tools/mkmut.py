#!/usr/bin/env python3
"""Create a mutant / variant patch from textual substitutions against /repo's current tree.

usage: mkmut.py <mutants|variants> <property> <name> <expect-rule-prefix|-> <description> -- file old new [file old new ...]
old/new are Python-escaped strings (\\n, \\t allowed). Each `old` must occur exactly once in its file.
"""
import os, subprocess, sys, tempfile, shutil, codecs

def main():
    kind, prop, name, expect, desc = sys.argv[1:6]
    assert sys.argv[6] == '--'
    triples = sys.argv[7:]
    assert len(triples) % 3 == 0
    repo = os.environ.get('REPO', '/repo')
    tmp = tempfile.mkdtemp(prefix='mkmut.')
    base = os.environ.get('BASE', '')   # corpus patch (relative to /verif) to apply first
    try:
        if base:
            bt = os.path.join(tmp, 'base')
            subprocess.run(['rsync', '-a', '--exclude', '.git', '--exclude', '/dirk', repo + '/', bt + '/'], check=True)
            subprocess.run(['patch', '-p1', '-s', '--no-backup-if-mismatch', '-i', os.path.join('/verif', base)], cwd=bt, check=True)
            repo = bt
        diffs = []
        files = {}
        for i in range(0, len(triples), 3):
            f, old, new = triples[i:i+3]
            old = codecs.decode(old, 'unicode_escape'); new = codecs.decode(new, 'unicode_escape')
            src = files.get(f) or open(os.path.join(repo, f)).read()
            if src.count(old) != 1:
                sys.exit(f"{f}: pattern occurs {src.count(old)} times: {old!r}")
            files[f] = src.replace(old, new)
        for f, content in files.items():
            a = os.path.join(tmp, 'a', f); b = os.path.join(tmp, 'b', f)
            os.makedirs(os.path.dirname(a), exist_ok=True); os.makedirs(os.path.dirname(b), exist_ok=True)
            shutil.copy(os.path.join(repo, f), a)
            open(b, 'w').write(content)
            r = subprocess.run(['diff', '-u', os.path.join('a', f), os.path.join('b', f)], cwd=tmp, capture_output=True, text=True)
            diffs.append(r.stdout)
        outdir = os.path.join('/verif', kind, prop)
        os.makedirs(outdir, exist_ok=True)
        with open(os.path.join(outdir, name + '.patch'), 'w') as fh:
            fh.write(f"# property: {prop}\n# expect: {expect}\n# description: {desc}\n" + (f"# base: {base}\n" if base else ''))
            fh.write(''.join(diffs))
        print('wrote', os.path.join(outdir, name + '.patch'))
    finally:
        shutil.rmtree(tmp)

main()
