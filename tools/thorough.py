#!/usr/bin/env python3
"""Thorough tier: quick obligations on the host target, again on GOARCH=386 (width-dependent reasoning),
then the property's mutant/variant corpus replayed on scratch copies of the current tree.
The corpus validates the checker (a surviving mutant is SELFTEST-WEAK, not a violation)."""
import json, os, subprocess, sys, time, tempfile, shutil

VERIF = os.path.dirname(os.path.dirname(os.path.abspath(__file__)))
REPO = os.environ.get('REPO', '/repo')
prop = sys.argv[1]
t0 = time.time()
BIN = os.path.join(VERIF, 'bin', 'dirkcheck')
evdir = os.path.join(VERIF, 'evidence')
known = os.path.join(VERIF, 'known-findings.txt')
out = []
rc = 0
# 1. 386 target into a scratch evidence dir
tmp = tempfile.mkdtemp(prefix='dirk386.')
try:
    p = subprocess.run([BIN, '-property', prop, '-tier', 'thorough', '-repo', REPO, '-out', tmp, '-known', known, '-goarch', '386'], capture_output=True, text=True)
    sys.stdout.write(''.join(l + '\n' for l in p.stdout.splitlines() if not l.startswith('VIOLATION')))
    ev386 = None
    try:
        ev386 = json.load(open(os.path.join(tmp, prop + '.json')))
    except Exception:
        pass
    rc386 = p.returncode
    replays386 = []
    if rc386 != 0:
        os.makedirs(os.path.join(evdir, 'replay'), exist_ok=True)
        rp = os.path.join(tmp, 'replay')
        if os.path.isdir(rp):
            for f in sorted(os.listdir(rp)):
                dst = os.path.join(evdir, 'replay', '386-' + f)
                shutil.copy(os.path.join(rp, f), dst)
                replays386.append(dst)
finally:
    shutil.rmtree(tmp, ignore_errors=True)
# 2. host target (authoritative evidence file)
p = subprocess.run([BIN, '-property', prop, '-tier', 'thorough', '-repo', REPO, '-out', evdir, '-known', known], capture_output=True, text=True)
sys.stdout.write(p.stdout)
sys.stderr.write(p.stderr)
rc = p.returncode
# 3. corpus
cj = tempfile.mktemp(prefix='corpus.', suffix='.json')
c = subprocess.run([sys.executable, os.path.join(VERIF, 'tools', 'corpus.py'), '--kind', 'all', '--property', prop, '-j', os.environ.get('CORPUS_JOBS', '6'), '--json', cj], capture_output=True, text=True)
sys.stdout.write(c.stdout)
corpus = {}
try:
    corpus = json.load(open(cj))
    os.remove(cj)
except Exception:
    pass
# merge into evidence
evf = os.path.join(evdir, prop + '.json')
try:
    ev = json.load(open(evf))
    cov = ev['coverage']
    cov['targets'] = ['amd64', '386']
    cov['target_386'] = {'exit': rc386, 'obligations': (ev386 or {}).get('coverage', {}).get('obligations'), 'discharged': (ev386 or {}).get('coverage', {}).get('discharged')}
    cov['corpus'] = {k: v for k, v in corpus.items() if k != 'results'}
    cov['corpus_results'] = [{k: r.get(k) for k in ('kind', 'patch', 'status', 'expect', 'violated')} for r in corpus.get('results', [])]
    ev['wall_s'] = round(time.time() - t0, 1)
    if rc386 != 0:
        ev['violations'] = ev.get('violations', 0) + len(replays386)
    json.dump(ev, open(evf, 'w'), indent=1)
except Exception as e:
    print('could not merge thorough results into evidence:', e)
if rc386 != 0:
    for r in replays386:
        print(f'VIOLATION property={prop} replay={r}')
    rc = 1
sys.exit(rc)
