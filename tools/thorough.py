#!/usr/bin/env python3
"""Thorough tier: the property's obligations with the who-may-call / reachability rules re-evaluated on the more conservative
class-hierarchy call graph as well (dirkcheck -tier thorough), then the property's mutant / variant / seeded corpus replayed on
scratch copies of the current tree. The corpus validates the checker: a surviving mutant or a false alarm on a variant is reported
as SELFTEST-WEAK in the output and recorded in the evidence file without changing the exit status (it is a weakness of the
checker, not a violation of the property)."""
import json, os, subprocess, sys, time, tempfile

VERIF = os.path.dirname(os.path.dirname(os.path.abspath(__file__)))
REPO = os.environ.get('REPO', '/repo')
prop = sys.argv[1]
t0 = time.time()
BIN = os.path.join(VERIF, 'bin', 'dirkcheck')
evdir = os.path.join(VERIF, 'evidence')
known = os.path.join(VERIF, 'known-findings.txt')
p = subprocess.run([BIN, '-property', prop, '-tier', 'thorough', '-repo', REPO, '-out', evdir, '-known', known], capture_output=True, text=True)
sys.stdout.write(p.stdout)
sys.stderr.write(p.stderr)
rc = p.returncode
cj = tempfile.mktemp(prefix='corpus.', suffix='.json')
c = subprocess.run([sys.executable, os.path.join(VERIF, 'tools', 'corpus.py'), '--kind', 'all', '--property', prop, '-j', os.environ.get('CORPUS_JOBS', '6'), '--json', cj], capture_output=True, text=True)
sys.stdout.write(c.stdout)
corpus = {}
try:
    corpus = json.load(open(cj))
    os.remove(cj)
except Exception:
    pass
evf = os.path.join(evdir, prop + '.json')
try:
    ev = json.load(open(evf))
    cov = ev['coverage']
    cov['corpus'] = {k: v for k, v in corpus.items() if k != 'results'}
    cov['corpus_results'] = [{k: r.get(k) for k in ('kind', 'patch', 'status', 'expect', 'violated')} for r in corpus.get('results', [])]
    ev['wall_s'] = round(time.time() - t0, 1)
    json.dump(ev, open(evf, 'w'), indent=1)
except Exception as e:
    print('could not merge corpus results into evidence:', e)
sys.exit(rc)
