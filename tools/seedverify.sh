#!/bin/bash
# usage: seedverify.sh <worktree> <demo go-test pattern> <package dir> [skip-suite]
# Confirms: demo fails with the change, passes without; full suite with change has only the baseline failure; then runs all checks.
set -u
WT=$1; PAT=$2; PKG=$3; SKIP=${4:-}
export GOFLAGS=-mod=mod GOPROXY=off GOSUMDB=off GOTOOLCHAIN=local; unset GOWORK
cd "$WT" || exit 2
echo "== tracked changes:"; git status --short | grep -v '^??'
echo "== demo WITH change (expect FAIL)"
go test -vet=off -count=1 -run "$PAT" "$PKG" 2>&1 | grep -E '^(--- FAIL|FAIL|ok|PASS|panic)' | head -5
git diff > /tmp/seedtmp.change.$$.diff; git checkout -q -- .   # (not `git stash`: the stash is shared by all worktrees of the repository)
# new source files of the change are untracked and survive the stash: move them away too (everything untracked that is
# not a test file and not under seed/)
mkdir -p /tmp/seedtmp/new.$$
NEWSRC=$(git status --short | grep '^??' | awk '{print $2}' | grep -v '^seed/' | grep -v '_test.go$' | grep '\.go$')
for f in $NEWSRC; do mkdir -p /tmp/seedtmp/new.$$/$(dirname $f); mv "$f" /tmp/seedtmp/new.$$/$f; done
echo "== demo WITHOUT change (expect ok)"
go test -vet=off -count=1 -run "$PAT" "$PKG" 2>&1 | grep -E '^(--- FAIL|FAIL|ok|PASS|panic)' | head -5
for f in $NEWSRC; do mv /tmp/seedtmp/new.$$/$f "$f"; done
git apply /tmp/seedtmp.change.$$.diff && rm -f /tmp/seedtmp.change.$$.diff
if [ -z "$SKIP" ]; then
  echo "== full suite WITH change, excluding the demo (expect only TestRules)"
  mkdir -p /tmp/seedtmp; DEMOS=$(git status --short | grep '^??' | grep '_test.go' | awk '{print $2}')
  for d in $DEMOS; do mv "$d" /tmp/seedtmp/$(echo $d | tr / _); done
  mv seed /tmp/seedtmp/seed.$$ 2>/dev/null
  go build ./... && go test -vet=off -count=1 ./... 2>&1 | grep -E '^(--- FAIL|FAIL|panic)' | head
  mv /tmp/seedtmp/seed.$$ seed 2>/dev/null
  for d in $DEMOS; do mv /tmp/seedtmp/$(echo $d | tr / _) "$d"; done
fi
echo "== checks"
mkdir -p /tmp/seedtmp; mv seed /tmp/seedtmp/seed.$$ 2>/dev/null
rm -rf /tmp/seedev/$(basename $WT); /verif/bin/dirkcheck -property all -repo "$WT" -out /tmp/seedev/$(basename $WT) -known /dev/null 2>&1 | grep -E "VIOLATED|UNDECIDED|quick:" 
mv /tmp/seedtmp/seed.$$ seed 2>/dev/null
