#!/bin/sh
# usage: tryrefactor.sh <diff> : apply a diff to a scratch copy of /repo, build, run all checks, print violated rules
set -u
D=$(mktemp -d /tmp/tryref.XXXXXX); P=$(readlink -f "$1")
rsync -a --exclude .git --exclude /dirk /repo/ $D/repo/
( cd $D/repo && git apply --whitespace=nowarn "$P" 2>/dev/null || patch -p1 -s --no-backup-if-mismatch -i "$P" ) || { echo "PATCH FAILED"; rm -rf $D; exit 2; }
export GOFLAGS=-mod=mod GOPROXY=off GOSUMDB=off GOTOOLCHAIN=local; unset GOWORK
( cd $D/repo && go build ./... ) || { echo "BUILD FAILED"; rm -rf $D; exit 2; }
mkdir -p $D/ev
/verif/bin/dirkcheck -property all -repo $D/repo -out $D/ev -known /dev/null -tier quick | grep " quick: " | grep -v " 0 violated, 0 undecided"
python3 - $D/ev <<'PY'
import json,glob,sys,os
for f in sorted(glob.glob(os.path.join(sys.argv[1],'replay','*.json'))):
    o=json.load(open(f))
    print('  ',os.path.basename(f)[:3],o.get('kind',''),o['rule'],'@',o['construct'],'|',o.get('found','')[:200])
PY
rm -rf $D
