#!/bin/sh
# usage: importref.sh <worktree> <name e.g. N4> <round>: store a refactoring agent's three diffs as variants/indep/<name>-k.patch (+ README)
WT=$1; N=$2; R=$3
for k in 1 2 3; do
  f=$WT/seed/refactor_$k.diff
  [ -f "$f" ] || { echo "missing $f"; continue; }
  { printf '# property: indep\n# expect: -\n# description: independent behaviour-preserving refactoring %s/%s (sub-agent, round %s; argument in variants/indep/%s.README.md)\n' "$N" "$k" "$R" "$N"; cat "$f"; } > /verif/variants/indep/$N-$k.patch
done
cp $WT/seed/README.md /verif/variants/indep/$N.README.md
