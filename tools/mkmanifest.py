#!/usr/bin/env python3
"""Regenerate MANIFEST.json from the table below (claimed properties) and properties.jsonl."""
import json, os
VERIF = os.path.dirname(os.path.dirname(os.path.abspath(__file__)))
props = [json.loads(l) for l in open(os.path.join(VERIF, 'properties.jsonl'))]

COMMON_NOTE = ("Trusted: Go type checker and go/ssa (x/tools v0.29.0) as a faithful model of the compiled program; the VTA/CHA call graphs "
               "for production reachability; the prose composition argument of DESIGN.md §5 that turns the structural obligations into the behavioural "
               "statement. Undecided obligations, unresolved anchors, unmet instance floors, load errors and checker panics all fail the check.")

# id -> (technique, level text, extra note, design ref)
CLAIMED = {
 'C01': ("SSA must-pass-through (cut) of watermark/bound guards before every APPROVED origin; conversion-guard dominance; record-before-approve cut; key/state provenance; dedupe-loop idiom; 2PL structure",
         "Decides, on every path of the current source, the structural obligations O1-O9, O13 of DESIGN.md §5 C01 (guards t>T, s>=S or 'none' before every APPROVED origin; uint64->int64 narrowing bounded; APPROVED leaves only past the nil-error edge of a committing store; state fetched/stored under the request's own key; duplicate keys refused) plus the C03 commit and C04 locking groups. Each is a necessary condition of the property; together with the composition argument they imply it. Not a proof: the composition step is prose.",
         "Not decided: badger returns the last committed value; BLS. ", "§5 C01"),
 'C02': ("SSA must-pass-through (cut) of the slot watermark/bound guards before every APPROVED origin; conversion-guard dominance; record-before-approve cut; key/state provenance; writer discipline of the watermark object",
         "Decides the structural obligations of DESIGN.md §5 C02 on every path: APPROVED for a proposal is cut by [stored slot < 0] or [slot > stored slot]; the slot is bounded by MaxInt64 before narrowing; the new slot is committed (nil-error edge of a committing store) before APPROVED leaves; the record is fetched and stored under the request's own key with the proposal action; the watermark object is written only after the comparison; only APPROVED requests are signed. Strictly increasing signed slots follow by the composition argument (prose).",
         "Not decided: badger returns the last committed value; BLS. ", "§5 C02"),
 'C03': ("effective-option dataflow at badger.Open (SyncWrites/InMemory, defaults read from the dependency's source), nil-error-implies-commit cuts in the store, who-may-call tables over badger mutators, approve->store->sign chain cuts, joined-fork idiom check of util.Scatter",
         "Decides, path by path, the chain 'signature => APPROVED => store returned nil => badger commit returned nil on a database opened with SyncWrites effective', that nothing else writes or deletes records, and that every goroutine boundary between the store and the signer's use of the verdict is a joined fork. A per-path argument covers every crash point. Durability itself is badger's contract (trusted).",
         "Not decided: badger's and the file system's durability; torn writes inside badger; that the same storage-path is configured after restart. ", "§5 C03"),
 'C04': ("lock-region analysis on SSA (full-range lock loop idiom, deferred release, key provenance), action-guard cuts, module call graph with lexical closure edges (only-via RunRules), who-may-call tables",
         "Decides the conservative two-phase-locking structure: every stateful rule is reachable only through RunRules, RunRules locks the key of every request (same bytes as the database key) before dispatch and releases by defer, the lock condition covers every action under which a stateful rule is dispatched, the locker hands out one mutex per key, and the store is touched only below the stateful rules or import/export. Serial equivalence then follows by the textbook 2PL argument (prose).",
         "Not decided: the linearizability statement over concrete histories; fairness.", "§5 C04"),
 'C05': ("cuts of normalised domain-prefix atoms (bytes.Equal(Domain[0:4], <domain type>)) before every APPROVED origin, boolean-flag origin analysis for the administrator-address gate, action->rule dispatch table cross-checked against what the endpoints send, provenance of the signed domain",
         "Decides that the generic rule's APPROVED is cut by [domain type != attester] and [!= proposer] and, below the voluntary-exit edge, by a non-empty source address that matched an administrator entry; that the attestation/proposal rules' APPROVED (and, for proposals, any state access) is cut by [domain type == their own]; that the ruler evaluates under each action the rule for the data type the endpoints send under it; and that both generic endpoints sign only APPROVED requests, over the very domain that was checked.",
         "Not decided: the numeric values of the e2types domain constants. ", "§5 C05"),
 'C06': ("value-set cuts over the closed verdict enum at every signing site, data-dependence based nil-error cuts before every success site, pairing rules for signature/SUCCEEDED in services and handlers, summaries of the pre-check helpers, error-mapping cuts in the rules' fetch helpers and the store",
         "Decides that a signature is produced only where the rules verdict of the request's own position is APPROVED, that SUCCEEDED+signature is reachable only past the nil-error edge of every call the signature depends on, that signature and SUCCEEDED are written together (service and handler, position by position), that rules run only after lookup, permission check and unlock succeeded, and that fetch/decode/store failures cannot turn into 'nothing signed yet' or APPROVED.",
         "Not decided: behaviour when a dependency panics instead of returning an error; third-party signers. ", "§5 C06"),
 'C07': ("per-clause must-pass-through cuts inside the permission checker (scoped to the current entry / item by starting the cut at the loop body), abstract-string evaluation of every compiled pattern, authorise-before-act cuts over all client-facing service entry points with helper summaries, string-taint analysis of the checked name, action/rule/data-type consistency table",
         "Decides that Check answers 'allowed' only past [credentials present], [client known], [both patterns match the names split from the account under test], [this item is not a deny], [this item allows], scanning entries and items forward and in full, and refuses inside the scan only on a deny item; that every compiled pattern has the shape (?i)^(?:pattern)$; that every action of the 11 client-facing service entry points lies below a positive check of the resolved wallet/account name (create: the requested name) under the operation constant its rules run with.",
         "Not decided: regexp semantics; the order in which main turns the YAML map into the entry list (Go map iteration; the property is decided for the list the checker service holds). ", "§5 C07"),
 'C16': ("must-pass-through cut of [sender id != 0] before every process.On* invoke in the five DKG handlers, origin analysis of the id lookup (non-zero only below [peer.Name == authenticated name], same table entry), who-may-call table of the protocol methods, provenance of the reply share index and of outgoing shares",
         "Decides that each key-generation handler calls the process service only below [sender id != 0] with the looked-up id, that the lookup yields a non-zero id only as the key of the peer whose configured name equals the authenticated client name (which enters the context in one place, from the verified leaf certificate), that nothing else calls the protocol methods, that the contribution reply is distributionSecrets[sender id] and outgoing shares go to the peer of their own id.",
         "Not decided: nothing further; crypto/tls is trusted for the identity. ", "§5 C16"),
 'C17': ("lock-held dataflow for the session-table mutex (guarded-by with callee-assumes-lock), typestate cuts: insert below lookup-not-found, every session use / table write / success return below lookup-success, commit success past both completeness tests and the delete, expiry delete below the timeout comparison; who-may-write table",
         "Decides the one-per-account lifecycle structurally: every access to the session table and every lookup happens with the table mutex write-held and the mutex is released on every return; prepare inserts only below the lookup's not-found edge and leaves a found session untouched; execute, contribute, commit and abort use the session, change the table or report success only below lookup success (the lookup's error set is exactly {nil, not found}); commit succeeds only past both per-participant completeness tests and after deleting the session, abort after deleting it, the lookup deletes only past the timeout comparison; nothing else writes the table.",
         "Not decided: that len == participants means exactly the listed participants when a non-listed peer contributes (cooperating peers assumed); wall-clock behaviour. ", "§5 C17"),
 'C19': ("configuration-literal evaluation of the tls.Config reaching credentials.NewTLS -> grpc.Creds -> grpc.NewServer (field table, pool provenance, option-slice tracing), single-server / who-may-call tables for registrations, Serve and handler methods, provenance of the identity context value",
         "Decides that the only gRPC server in production is built with TLS credentials requiring and verifying a client certificate against a fresh pool containing only the configured authority (TLS >= 1.2, no verification overrides), that all registrations and Serve are on that server and handlers have no other caller, and that the identity used for permission decisions is PeerCertificates[0].Subject.CommonName set below HandshakeComplete in exactly one place and read through one helper by every handler.",
         "Not decided: crypto/tls and grpc-go honour the configuration (trusted contract). ", "§5 C19"),
 'C12': ("per-atom cuts of the threshold bounds before every generation start, field-flow table of the threshold (request -> prepare -> session -> account), per-iteration cuts in the reply-collection / key-comparison / signature-window loops of the initiator, must-pass-through of the cache insertion after account creation, overlay map rules in the fetcher",
         "Claimed clauses only (DESIGN.md §5 C12): generation starts only below [n != 0], [t <= n], [n/2 < t]; the checked threshold is the one sent, recorded (never changed) and stored with the account; success is reported only past error-free non-empty commit replies, cyclic pairwise equality of all participants' keys, and recover+verify of every window of t confirmation signatures against the returned key pubKeys[0]; every created account reaches fetcher.AddAccount, which updates both overlay maps under the write lock, and lookups/listing consult the overlay.",
         "NOT decided (not applicable to static analysis): that shares are consistent with the verification vector, that any t partial signatures combine and fewer do not - Shamir/BLS mathematics inside herumi. ", "§5 C12"),
 'C13': ("cuts of the contribution check (same share, same vector, own id, session threshold) before every insertion of a received contribution; cut of [len(vector) == threshold] before every accepting return of the check; commit-only account writes below both completeness tests; initiator ordering cuts (commit start unreachable from any prepare/execute error edge); handler decode-error cuts",
         "Decides that a received share/vector enters a session only below the contribution check applied to those very values, this instance's id and the session threshold; that the check accepts only vectors of exactly threshold entries (so the threshold-sized aggregate is never indexed out of range: no crash); that the account is written only by commit below one share and one vector per listed participant; that the initiator starts commit messages only past the nil-error edge of every prepare and execute; that undecodable contributions return before the process service.",
         "Not decided: partial failure during the commit phase (outside the statement); the BLS consistency check itself. ", "§5 C13"),
 'C15': ("typestate dataflow over the gate (PreLock/Lock*/PostLock), mutex pairing dataflow inside the locker, reachability in the module call graph (no re-entry below the dispatch)",
         "Decides that key locks are only requested inside the locker-wide gate, the gate is released on every path, nothing inside the gate or below the dispatch can re-enter the locker, the locker's own creation mutex is paired on every path and released before waiting for a key, and every acquired key is released by defer. These exclude every wait-for cycle (prose argument in DESIGN.md §5 C15).",
         "Not decided: termination of badger operations and third-party signers while locks are held.", "§5 C15"),
}

checks = []
for pid, (tech, text, note, ref) in sorted(CLAIMED.items()):
    checks.append({
        "property_id": pid,
        "quick_cmd": f"./run.sh {pid} quick",
        "thorough_cmd": f"./run.sh {pid} thorough",
        "evidence_file": f"evidence/{pid}.json",
        "replay_cmd_template": "./bin/dirkcheck -explain {path}",
        "engine": "dirkcheck",
        "level_claimed": {"category": "other", "text": text, "design_ref": "DESIGN.md " + ref},
        "level_note": note + COMMON_NOTE,
        "technique": "static analysis: " + tech,
    })

PENDING = "check under construction in this round (DESIGN.md §5 lists its planned structural obligations); it will be claimed once implemented and validated against its mutant corpus"
NA = {}
man = {
 "version": 1,
 "setup_cmd": "cd /verif/checker && GOFLAGS=-mod=mod GOPROXY=off GOSUMDB=off GOTOOLCHAIN=local GOWORK=off go build -o /verif/bin/dirkcheck ./cmd/dirkcheck",
 "hooks": {"guard": "verif", "enable": "no hooks are needed by a static analysis; every load of /repo passes -tags verif so guarded files would be analysed too",
           "baseline_off_cmd": "cd /repo && GOFLAGS=-mod=mod go test -vet=off -count=1 ./...", "source_commits": [], "add_only": True},
 "engines": [{"name": "dirkcheck", "path": "/verif/checker", "serves_properties": sorted(CLAIMED),
              "kind_free_text": "repository-specific static analyser over type-checked packages, go/ssa and the VTA/CHA call graphs (golang.org/x/tools v0.29.0); nothing in /repo is executed"}],
 "checks": checks,
 "notes": "All checks are static (quick = obligations on the host target; thorough = also GOARCH=386 and the mutant/variant corpus replayed on scratch copies). See DESIGN.md.",
 "not_applicable": [{"property_id": p["id"], "reason": NA.get(p["id"], PENDING)} for p in props if p["id"] not in CLAIMED],
}
json.dump(man, open(os.path.join(VERIF, 'MANIFEST.json'), 'w'), indent=1)
print("claimed:", sorted(CLAIMED), "not claimed:", [x["property_id"] for x in man["not_applicable"]])
