#!/bin/bash
# terse wrapper around seedverify.sh: demo both ways, suite, and the per-property summary of failing checks
/verif/tools/seedverify.sh "$@" 2>&1 | grep -v " 0 violated, 0 undecided" | awk '/^== checks/{c=1} {if(!c) print; else if ($0 ~ /quick:/) print; else seen[$0]++} END{for (k in seen) print k}' | sort | uniq
